#!/usr/bin/env python3
"""Optional calibration of vf.refsem.regex_ref against node (never the deciding step)."""
import itertools, json, subprocess, sys
sys.path.insert(0, "/verif")
from vf.skel import regexgen as G
from vf.refsem import regex_ref as RR

pats = G.core_patterns() + G.random_patterns(7, 400)
alphabet = ["a", "b", "c", "d", " ", "1", "_", "A", "\n", "\r", "é", " ", "-", "x"]
subjects = [""] + ["".join(t) for n in (1, 2, 3) for t in itertools.product(alphabet[:6] + alphabet[8:9], repeat=n)]
subjects += ["".join(t) for t in itertools.product(alphabet, repeat=2)] + ["aab", "abab", "abcd", "aaaa", "abba", "a\nb", "ab ab", "bbbb"]
subjects = sorted(set(subjects))
bad = 0
total = 0
for flags in ("", "m", "s", "i"):
    jobs = [(RR.render(p), flags) for p in pats]
    js = """
const jobs=%s, subs=%s; const out=[];
for (const [p,f] of jobs){ let re; try{ re=new RegExp(p,f);}catch(e){ out.push(null); continue;}
  out.push(subs.map(s=>{ const m=re.exec(s); return m===null?null:[m.index, Array.from(m).map(x=>x===undefined?null:x)]; })); }
console.log(JSON.stringify(out));""" % (json.dumps(jobs), json.dumps(subjects))
    res = json.loads(subprocess.run(["node", "-e", js], capture_output=True, text=True).stdout)
    for p, r in zip(pats, res):
        if r is None:
            print("node rejects", RR.render(p)); continue
        for s, want in zip(subjects, r):
            if flags == "i" and any(ord(c) > 127 for c in s):
                continue
            got = RR.exec_ref(p, flags, s)
            got = None if got is None else [got[0], got[2]]
            total += 1
            if got != want:
                bad += 1
                if bad < 15:
                    print("DIFF /%s/%s on %r: ref %r node %r" % (RR.render(p), flags, s, got, want))
print("patterns", len(pats), "comparisons", total, "differences", bad)
