#!/usr/bin/env python3
"""Regenerate the `fixed` section of known_findings.json from the table below and /repo's history (commit hashes are
looked up by subject so that the file follows rebases).  Open findings are kept as they are."""
import json
import subprocess

# subject prefix (after "fix: ") -> (property, what failed: the concrete input / call site)
FIXED = [
    ("relational operators with NaN", "C06", "Infinity >= NaN and the other relational operators with a NaN operand returned true"),
    ("NaN / 0 is NaN", "C06", "NaN / 0 evaluated to -Infinity"),
    ("% follows the sign", "C06", "1 % -2 evaluated to -1; -1 % Infinity to Infinity"),
    ("** and Math.pow", "C06", "(-8) ** (1/3), 1 ** Infinity, 0 ** -1 raised host errors or gave non-ECMAScript values"),
    ("postfix ++/-- yield", "C06", "var s = '5'; s++ yielded the string '5'"),
    ("a boolean is never strictly", "C06", "true === 1 evaluated to true"),
    ("string-to-number conversion", "C06", "Number('1_0'), Number(' 12 '), Number('0x') used Python's float()/int() grammar"),
    ("integer sums and differences", "C06", "2**53 + 1 kept exact integer precision"),
    ("number-to-string conversion uses", "C06", "String(1e21), String(1e-7) used Python notation thresholds"),
    ("compound assignment to a property", "C06", "o.p += v stored v (plain assignment)"),
    ("return inside a nested function", "C07", "return in a function called inside try ran the caller's finally block"),
    ("object-to-primitive conversion works", "C06", "({}) + 1 with built-in toString/valueOf raised TypeError"),
    ("eval() and Function() code runs under the deadline", "C01", "eval('while(true){}') restarted the clock of the nested interpreter"),
    ("break/continue discard loop temporaries", "C05", "continue outer inside for-in jumped to offset 0; break left the iterator on the stack"),
    ("return discards operands", "C02", "return inside for-of left the iterator on the operand stack of the caller"),
    ("switch tests every case", "C05", "switch with default before a matching case ran the default"),
    ("a caught exception discards", "C02", "f(1, thrower()) caught inside a loop grew the operand stack each iteration"),
    ("break/continue/return leave try", "C07", "break out of try..finally inside a loop skipped or doubled the finally block"),
    ("nested eval is charged", "C02", "eval-recursion escaped the memory limit; deep callbacks raised RecursionError"),
    ("exceptions thrown in callbacks", "C07", "throw inside a map() callback bypassed the enclosing catch; native TypeError was uncatchable"),
    ("out-of-range arguments of number formatting", "C07", "(1).toFixed(101) raised a host ValueError instead of RangeError"),
    ("TypeError, RangeError and the other", "C07", "new TypeError('x') instanceof Error was false"),
    ("errors thrown inside functions carry", "C07", "an error thrown inside a function had no line/column"),
    ("exceptions from eval() and Function()", "C07", "try { eval('throw 1') } catch (e) {} did not catch"),
    ("NaN and Infinity arguments of built-ins", "C04", "[1,2].slice(NaN), 'abc'.charAt(Infinity) raised ValueError/OverflowError"),
    ("arithmetic, bitwise and relational operators convert", "C06", "({valueOf(){return 2}}) * 3 did not call valueOf"),
    ("programs that do not fit the bytecode", "C14", "a function with 300 locals raised ValueError; a loop body > 65535 bytes jumped to a wrapped target"),
    ("typeof of a variable captured", "C05", "typeof x for a closure-captured x read the stale local slot"),
    ("the loop variable of for-in/for-of", "C05", "for (k in o) inside a function with k captured by a closure wrote the wrong slot"),
    ("'var x;' without an initializer", "C05", "var x = 1; var x; reset x to undefined"),
    ("break/continue inside a finally block discard the pending exception", "C07", "finally { break; } re-threw the pending exception after the loop"),
    ("break/continue inside a finally block discard a pending return", "C07", "try { return 1 } finally { continue } returned from the function"),
    ("regex lookahead and lookbehind bodies", "C09", "/(?=(a|b)c)./ and backreferences inside lookarounds mismatched"),
    ("regex character classes, line terminators", "C09", "/./ matched \\u2028; /[^]/, \\s, \\w/i and case folding differed from ECMAScript"),
    ("a regex backreference may precede", "C09", "/\\1(a)/ failed to match 'a'"),
    ("captures of counted and + quantifiers", "C09", "/(?:(a)|b)+/ kept the capture of an earlier iteration"),
    ("regular expressions whose compiled form would be huge", "C10", "/(?:a{1000}){1000}/ exhausted memory while compiling"),
    ("an optional regex iteration that matches the empty", "C09", "/(a*)*b/ and /(?:a?)*?/ empty iterations reset captures"),
    ("RegExp exec/test follow the lastIndex", "C20", "exec on a /g regex with lastIndex > length did not reset lastIndex to 0; /y ignored"),
    ("String match/replace/replaceAll/search/split", "C20", "'aXbX'.replace(/X/g, '$&$&'), split with captures and limit, search resetting lastIndex"),
    ("String methods treat missing", "C16", "'abc'.lastIndexOf('', -1), substring(NaN), slice with undefined end"),
    ("huge repetition counts are refused", "C10", "/(?:){4294967295}/ looped for minutes"),
    ("Array methods iterate, default and convert", "C17", "splice(undefined), indexOf with fromIndex -Infinity, sort comparator returning fractions"),
    ("typed arrays store NaN and infinities", "C17", "new Int8Array(1)[0] = Infinity raised OverflowError"),
    ("parseInt and parseFloat implement", "C18", "parseInt('0x1g', 16), parseFloat('1e'), parseInt('  -0')"),
    ("Math functions return the specified values", "C18", "Math.round(-0.5), Math.floor(NaN), Math.exp(1000) raised or gave non-ECMAScript values"),
    ("an array literal or a parenthesised group inside another", "C13", "[[1] + 2], ((a).b), ((-x) | 0) were rejected or misparsed"),
    ("JSON.stringify writes numbers", "C18", "JSON.stringify(1e21) wrote Python notation; a cyclic object raised RecursionError"),
    ("the front end rejects malformed source", "C04", "'\\u0661' (Arabic digit) raised ValueError; unterminated /* swallowed the program; stray break raised Python SyntaxError"),
    ("assignment and ++/-- reject targets", "C13", "1 = 2, x + y = 3, x++ = 2, ++1 were accepted and did nothing"),
    ("lexer accepts all JavaScript white space", "C13", "'1\\x0b+2' was rejected; var x = /abc (unterminated regex) was accepted; 'a\\<newline>b' kept the newline; '\\x+1' was accepted"),
    ("new takes the whole member chain", "C13", "new o.C(5) constructed `o` instead of o.C"),
    ("for-in/for-of accept property targets", "C13", "for (a[0] of xs) raised NotImplementedError; for (this in o) raised NotImplementedError instead of JSSyntaxError"),
    ("a decimal point directly followed by an exponent", "C13", "5.e-325 read as (5).e - 325 = NaN"),
    ("lists and dicts returned by Python functions", "C11", "a Python list returned by an exposed function reached the script as a host list (typeof 'undefined'); a cyclic result raised RecursionError"),
    ("object model", "C08", "'inh' in Object.create({inh:1}) was false; F.prototype = {...} was ignored; arrows did not capture this; f.call() inside a getter ran the rest of the program inside the native call; delete o.missing was false; Object.keys([7,8]) was empty"),
    ("Array, typed array and ArrayBuffer constructors", "C04", "new Array(NaN), new Uint8Array(Infinity), String.fromCharCode(-1), console.log('\\ud800') raised host errors; new ArrayBuffer(2**32) allocated 4 GiB"),
    ("integer literals beyond the double range", "C04", "'\"\\u{FFFFFFFFFFFFFFFFFFFFFFFF}\"' and a 400-digit integer literal raised OverflowError; '1' + '+1' * 3000 raised RecursionError"),
    ("SyntaxErrors found by the compiler carry", "C04", "a stray break / 300 locals raised JSSyntaxError with line 0; '[' * 400 + ']' * 400 raised RecursionError while converting the result"),
    ("arrays returned by built-ins inherit", "C12", "Array.prototype.px = 1; [1].concat([2]).px was undefined (arrays made by concat/map/Object.keys had no prototype link)"),
    ("an optional repetition of a counted quantifier", "C09", "/(?:x*?){0,2}/.exec('xx') matched '' (ECMAScript 'xx'); /(?:a\\dc\\d){0,2}(?:\\D*?){0,2}/ on '\\x01\\x00' (thorough tier, C09.rand.098)"),
    ("only canonical index strings", "C03", "[10, 20]['\\n0'] and 'abc'['0\\t'] resolved like index 0"),
    ("error objects carry null", "C03", "new Error('m').lineNumber held Python None before the error was thrown"),
]


def main():
    log = subprocess.run(["git", "-C", "/repo", "log", "--format=%h %s"], capture_output=True, text=True, check=True).stdout.splitlines()
    fixes = [(l.split(" ", 1)[0], l.split(" ", 1)[1][5:]) for l in log if l.split(" ", 1)[1].startswith("fix: ")]
    out, missing = [], []
    used = set()
    for prefix, prop, what in FIXED:
        hit = [h for h, s in fixes if s.startswith(prefix)]
        if not hit:
            missing.append(prefix)
            continue
        used.add(hit[0])
        out.append("fixed: property=%s %s %s" % (prop, hit[0], what))
    unlisted = [(h, s) for h, s in fixes if h not in used]
    data = json.load(open("/verif/known_findings.json"))
    data["fixed"] = out
    json.dump(data, open("/verif/known_findings.json", "w"), indent=1)
    print(len(out), "fixed entries;", "no commit for:", missing, "; commits without entry:", unlisted)


if __name__ == "__main__":
    main()
