#!/usr/bin/env python3
"""Confirm a seeded change independently and run the property's check against it.

usage: tools/seed_eval.py <PROP> <agent-out-dir> <k> [--name NAME] [--tier quick]
  1. scratch worktree of /repo HEAD (outside /repo and /verif): apply change<k>.diff, run the repository's
     test suite (must pass), run demo<k>.py (must exit 1), revert, run demo<k>.py again (must exit 0);
  2. apply the diff to /repo, run the check, undo it straight afterwards;
  3. record everything in /verif/seeded/<name>/ (patch.diff, demo.py, meta.json).
"""
import json
import os
import re
import shutil
import subprocess
import sys
import time


def run(cmd, **kw):
    return subprocess.run(cmd, shell=True, capture_output=True, text=True, **kw)


def main():
    prop, out, k = sys.argv[1], sys.argv[2], sys.argv[3]
    name = "%s-%s" % (prop, k)
    tier = "quick"
    if "--name" in sys.argv:
        name = sys.argv[sys.argv.index("--name") + 1]
    if "--tier" in sys.argv:
        tier = sys.argv[sys.argv.index("--tier") + 1]
    diff = os.path.join(out, "change%s.diff" % k)
    demo = os.path.join(out, "demo%s.py" % k)
    note = os.path.join(out, "note%s.txt" % k)
    wt = "/tmp/seedeval-%s" % name
    meta = {"property": prop, "name": name, "source": "independent sub-agent (given only the property text and a scratch worktree)",
            "needs_to_manifest": open(note).read().strip() if os.path.exists(note) else "", "ran": []}
    run("git -C /repo worktree remove --force %s" % wt)
    r = run("git -C /repo worktree add -q %s HEAD" % wt)
    assert r.returncode == 0, r.stderr
    try:
        env = dict(os.environ, PYTHONPATH=wt + "/src")
        r = run("git -C %s apply %s" % (wt, diff))
        meta["applies_to_head"] = r.returncode == 0
        if r.returncode != 0:
            meta["apply_error"] = r.stderr[-400:]
            print("DOES NOT APPLY", r.stderr[-300:])
        else:
            t = run("cd %s && /venv/bin/python -m pytest -q -p no:cacheprovider --timeout=900 2>&1 | tail -1" % wt, env=env)
            meta["tests_with_change"] = t.stdout.strip().splitlines()[-1] if t.stdout.strip() else t.stderr[-200:]
            d1 = run("cd %s && /venv/bin/python %s" % (wt, demo), env=env)
            meta["demo_with_change_exit"] = d1.returncode
            meta["demo_with_change_output"] = (d1.stdout + d1.stderr)[-600:]
            run("git -C %s checkout -- ." % wt)
            d0 = run("cd %s && /venv/bin/python %s" % (wt, demo), env=env)
            meta["demo_without_change_exit"] = d0.returncode
            meta["ran"].append("scratch worktree %s: git apply; pytest; demo (exit %d); revert; demo (exit %d)"
                               % (wt, d1.returncode, d0.returncode))
    finally:
        run("git -C /repo worktree remove --force %s" % wt)
    ok = meta.get("applies_to_head") and "passed" in meta.get("tests_with_change", "") and not re.search(
        r"\b\d+ (failed|error)", meta.get("tests_with_change", "")) and meta.get("demo_with_change_exit") == 1 and meta.get("demo_without_change_exit") == 0
    meta["confirmed"] = bool(ok)
    if ok:
        assert run("git -C /repo status --porcelain").stdout.strip() == "", "/repo is not clean"
        run("git -C /repo apply %s" % diff)
        t0 = time.time()
        try:
            c = run("cd /verif && python3-vt -m vf.check %s --tier %s --no-evidence" % (prop, tier))
        finally:
            run("git -C /repo checkout -- .")
        lines = [l for l in c.stdout.splitlines() if l.startswith(("VIOLATION", "HARNESS-ERROR", "INCONCLUSIVE", "OK ", "VIOLATED", "ERROR"))]
        meta["check_exit"] = c.returncode
        meta["check_wall_s"] = round(time.time() - t0)
        meta["check_lines"] = [l[:400] for l in lines[:8]] + ([lines[-1][:300]] if len(lines) > 8 else [])
        meta["detected"] = c.returncode == 1 and any(l.startswith("VIOLATION property=%s " % prop) for l in lines)
        if c.returncode not in (0, 1) or (c.returncode == 1 and not meta["detected"]):
            meta["check_problem"] = (c.stdout + c.stderr)[-600:]
        meta["ran"].append("git -C /repo apply; python3-vt -m vf.check %s --tier %s; git -C /repo checkout -- ." % (prop, tier))
    d = os.path.join("/verif/seeded", name)
    os.makedirs(d, exist_ok=True)
    shutil.copy(diff, os.path.join(d, "patch.diff"))
    shutil.copy(demo, os.path.join(d, "demo.py"))
    json.dump(meta, open(os.path.join(d, "meta.json"), "w"), indent=1)
    print(name, "confirmed=%s" % meta["confirmed"], "detected=%s" % meta.get("detected"), "exit=%s" % meta.get("check_exit"))
    for l in meta.get("check_lines", [])[:4]:
        print("   ", l[:250])


if __name__ == "__main__":
    main()
