#!/usr/bin/env python3
"""Regenerate MANIFEST.json from the table below (run from /verif)."""
import json

LEVEL_NOTE = ("Bounded symbolic model checking: every harness is CONFIRMED only when CrossHair/z3 exhausted its path "
              "tree (all values of the symbolic parameters inside the stated bounds), nothing outside the bounds "
              "is claimed. Trusted: CrossHair 0.0.110's models of int/float/str (every path witness is re-run "
              "concretely on CPython 3.11 and 3.12 and must agree), z3 5.1, the transcribed oracles in vf/refsem, "
              "and the environment stubs listed in the evidence.")

CLAIMS = {
    "C01": dict(
        text="One-step lemma on the real VM._check_limits from an arbitrary counter/clock/stack state (all integers, "
             "all doubles): it polls exactly every 1000th step and a poll past the deadline always raises "
             "TimeLimitError; plus, for every place script code can run (48 placements x bare/try/try-in-function), "
             "the real interpreter is run under a symbolic clock (arbitrary non-decreasing readings, arbitrary T): the "
             "evaluation must end with TimeLimitError exactly at the first reading past the deadline, no script "
             "handler may run after it, no opcode may run without a preceding limit check, nested eval/Function and "
             "every regex entry point must use the outer deadline. Time is a solver variable, not a sleep.",
        technique="symbolic clock + symbolic execution of the real interpreter loop (CrossHair/z3), one-step lemma",
        design_ref="DESIGN.md section 4 (C01)"),
    "C02": dict(
        text="(1) One-step lemma on the real accounting in VM._check_limits for arbitrary stack/frame depths and M. "
             "(2) Runaway half: 24 recursion shapes (self, mutual, constructor, every callback-taking built-in, "
             "accessors, conversions, call/apply/bind, nested eval/Function) run on the real interpreter with M "
             "symbolic in [300,4000]: the outcome must be MemoryLimitError, no instruction may run above the limit "
             "and no script handler may observe the stop. (3) No-residue half: for every program of the control-flow "
             "skeleton family (loop kind x exit kind x enclosing construct x expression context, try/finally and "
             "caught mid-expression throws) with symbolic loop bound and exit selectors, a monitor asserts that "
             "every revisit of a loop head sees the same operand/handler depths and that nothing is left after the "
             "program - the inductive step that makes the iteration count irrelevant.",
        technique="symbolic execution of the real VM with depth monitors (CrossHair/z3), one-step lemma + inductive residue invariant",
        design_ref="DESIGN.md section 4 (C02)"),
    "C03": dict(
        text="(1) Name universal through the real VM._get_property/_has_property: on each of 22 receiver kinds (primitives, objects, "
             "arrays, typed arrays, buffers, script/arrow/bound/native functions, regex, error, arguments) the property name is a "
             "solver variable - any string of length <= 4 (thorough 12) outside the receiver's documented table - and must read as "
             "undefined and not be `in`. (2) Vocabulary: every attribute name of every class and module of the engine plus the Python "
             "dunder names (regenerated from dir() at run time), through 14 access forms in scripts (read, typeof, call, in, "
             "hasOwnProperty, for-in, keys, new, instanceof, use as prototype, stringify, write-then-read, delete): each must behave "
             "exactly like a fresh control name. (3) Value-domain sink: after every corpus/skeleton/call-form program the whole "
             "object graph reachable from the globals, closure cells and the result, and every argument a host function received, "
             "must consist of JavaScript values only. (4) An exposed host function is invoked only by explicit calls (45 "
             "non-calling forms leave its counter at 0; 8 calling forms invoke it once with the script's symbolic arguments).",
        technique="symbolic property names through the real property-access code (CrossHair/z3) + solver-indexed implementation-name "
                  "vocabulary and object-graph domain walk",
        design_ref="DESIGN.md section 4 (C03), 10.2"),
    "C04": dict(
        text="Front end: Parser and Compiler are executed on symbolic source text - one and two characters (any ASCII character as a "
             "solver variable, first character by lexical class; 26 pinned non-ASCII code points), one symbolic character spliced "
             "into every position of 20 small valid programs, every prefix/deletion/duplication/transposition of the corpus "
             "programs: the outcome must be a value or a JSSyntaxError whose line/column lie inside the text, never another "
             "exception, and every path must terminate. Runtime: every built-in callable reachable from a fresh Context (79 "
             "global functions/constructors/statics, and every member that resolves to a function on 22 receiver kinds, the "
             "member vocabulary regenerated from the engine's own string literals), called and constructed with 0-3 arguments "
             "from an adversarial grid of 29 values (first argument solver-indexed, second swept), plus 30 operator/statement "
             "forms over the same grid, each as a one-line script through Context.eval: only the JSError family may escape.",
        technique="symbolic execution of the real lexer/parser/compiler on symbolic text (CrossHair/z3) + solver-indexed sweep of the "
                  "regenerated API surface against an adversarial argument grid",
        design_ref="DESIGN.md section 4 (C04)"),
    "C05": dict(
        text="Differential symbolic execution: the real compiler+VM and a definitional ECMAScript interpreter "
             "(vf/refsem/interp.py) run the same skeleton program on the same symbolic data (loop bound, exit "
             "selectors, closure call sequence); log, completion value and uncaught-error status must agree on "
             "every feasible path. The solver, not a sampler, chooses which iteration takes which exit.",
        technique="differential symbolic execution vs definitional interpreter (CrossHair/z3)",
        design_ref="DESIGN.md section 4 (C05)"),
    "C07": dict(
        text="Differential symbolic execution against the definitional interpreter on the exception skeleton family "
             "(31 throw sites incl. runtime TypeError/ReferenceError, accessors, conversions, constructors, "
             "call/apply/bind and every callback-taking built-in x handler placement x try/catch/finally shapes x "
             "exit kind from each block x expression context); which iteration throws and which exit is taken are "
             "solver variables. Logs (incl. one entry per finally execution), caught values, error classes and "
             "results must agree on every path. Plus solver-indexed tables for the class of the engine's own runtime "
             "errors in 4 placements, uncaught throws surfacing as JSError, and line/column shift invariance.",
        technique="differential symbolic execution vs definitional interpreter (CrossHair/z3)",
        design_ref="DESIGN.md section 4 (C07)"),
    "C08": dict(
        text="Differential execution of the real VM against the object model of the definitional interpreter. (1) Object histories: "
             "a prelude builds a three-level prototype chain, a constructor with a prototype and an instance; every step is a "
             "solver-chosen (operation, target, key) out of 20 operations (set, delete, getter/setter definition, defineProperty, "
             "write-through, setPrototypeOf, Object.create, constructor prototype replacement, function properties, __proto__ "
             "literals, compound assignment to inherited properties, constructor return) - all single steps exhaustively and all "
             "operation pairs on representative targets; after EVERY step every observation (read, in, hasOwnProperty, keys, "
             "for-in, values/entries, getPrototypeOf, instanceof) on EVERY object of the graph is compared. (2) 10 function kinds x "
             "22 call forms and 42 constructor/prototype/accessor programs: this, arguments, length, name, instanceof, prototype "
             "link, constructor return rule, bound functions, lexical this/arguments of arrows. (3) One-step get/set/in/delete with "
             "the key any string of length <= 2 (symbolic) against an own-first chain walk.",
        technique="differential execution vs the definitional interpreter over solver-indexed operation histories + symbolic "
                  "property keys through the real _get/_set/_delete_property (CrossHair/z3)",
        design_ref="DESIGN.md section 4 (C08)"),
    "C09": dict(
        text="Differential symbolic execution of the real regex engine (parser and compiler on a concrete pattern, the "
             "matching VM on a symbolic subject) against a transcription of the ECMA-262 22.2.2 continuation-passing "
             "matcher built from the generator's own pattern AST: for each of ~220 enumerated core patterns (every "
             "operator kind: classes, escapes, groups, alternation, greedy/lazy/counted quantifiers, backreferences "
             "incl. forward ones, all four lookarounds, anchors, boundaries) and seeded random depth-3 patterns, under "
             "the flag sets {none, m, s} the subject is EVERY string up to the length bound over all code points "
             "(solver variable) and match/no-match, index, matched text and every capture (undefined vs empty) must "
             "agree; under /i the subject is solver-indexed over a pinned alphabet with the special-casing characters.",
        technique="differential symbolic execution vs the transcribed ECMAScript matcher (CrossHair/z3)",
        design_ref="DESIGN.md section 4 (C09)"),
    "C10": dict(
        text="Construction: RegExp(p) is executed with the pattern string itself symbolic (every string up to the "
             "bound over all code points) and, through Context.eval with the constructor, the call form and the "
             "literal, over the regex metacharacter vocabulary with solver-chosen characters and flag strings: the "
             "only outcomes are success or a SyntaxError a script can catch (a JSError in Python). Matching under "
             "budgets: one RegexVM per catastrophic family (nested quantifiers, overlapping alternations, "
             "backreference loops, lookarounds in loops, empty iterations) with step_limit / stack_limit / "
             "poll_interval and the poll callback's answers as solver variables: the attempt ends, steps <= "
             "step_limit+1, the backtrack stack <= stack_limit+1, polls at least every poll_interval steps "
             "(sub-matchers included), RegexTimeoutError iff the callback asked for it. Default budgets: 12 "
             "catastrophic (pattern, length) pairs x 8 regex-consuming APIs through eval end with a value or JSError.",
        technique="symbolic execution of the regex parser/compiler/VM with symbolic pattern text and symbolic budgets (CrossHair/z3)",
        design_ref="DESIGN.md section 4 (C10)"),
    "C17": dict(
        text="One step from an arbitrary dense array (complete over call histories because the state is the element "
             "list): every implemented Array method runs on the real implementation with the receiver's length, kind "
             "pattern and integer payloads as solver variables, position arguments from an adversarial grid, callbacks "
             "as host recorders returning solver-chosen results (and mutating the receiver on a solver-chosen call); "
             "result, receiver afterwards, callback log and array identity (fresh vs receiver) must equal the "
             "transcription of ECMA-262 23.1.3. sort under 10 comparators (stability, undefined last, fractional and NaN "
             "results), the documented stricter index/length assignment rules, and element conversion of the integer "
             "typed arrays for EVERY double.",
        technique="differential symbolic execution of the array built-ins vs a spec transcription (CrossHair/z3)",
        design_ref="DESIGN.md section 4 (C17)"),
    "C18": dict(
        text="Number->string: for 11 digit patterns x every decimal exponent in [-330, 310] x sign (solver-chosen), the "
             "implicit conversion, String(), toString(), toString(10), toPrecision() and the JSON text must equal the "
             "ECMAScript layout (exponent notation exactly outside [1e-6, 1e21), e+/e- without padding, -0 as 0); "
             "toFixed/toExponential/toPrecision over a boundary grid x digit counts against an exact rational-arithmetic "
             "transcription (calibrated against node); toString(radix) for integers and every radix in [-2, 40]. "
             "String->number: Number()/unary +/arithmetic coercion, parseFloat and parseInt (radix grid incl. NaN, "
             "Infinity, 2**32+16, 37) over token strings from a 30-token alphabet (signs, radix prefixes, exponents, "
             "ECMAScript and non-ECMAScript whitespace, non-ASCII digits) against the transcribed grammar. Math: every "
             "function x a special-value grid must not raise and must return the specified special results. The digit "
             "generators (host dtoa/strtod) and libm accuracy are trusted, not checked.",
        technique="solver-indexed differential checking of the number<->string code vs transcribed ECMAScript algorithms "
                  "(CrossHair/z3 drives finite index domains; the engine code here crosses into C and cannot stay symbolic)",
        design_ref="DESIGN.md section 4 (C18)"),
    "C20": dict(
        text="lastIndex protocol as ONE step from an arbitrary state: for each (pattern, flag set) the script-level "
             "RegExp object gets a solver-chosen lastIndex (integers, negatives, fractions, NaN, infinities, strings, "
             "undefined, null, huge values), runs exec or test on a solver-chosen subject, and the result and the "
             "lastIndex value/type afterwards must equal RegExpBuiltinExec; 3-operation histories check composition. "
             "String match / replace / replaceAll / split / search with regex arguments are compared with the "
             "transcribed @@match/@@replace/@@split/@@search and GetSubstitution over solver-chosen subjects, "
             "replacement templates ($$ $& $` $' $n $nn), limits and a recording function replacer, including the "
             "lastIndex they leave behind.",
        technique="solver-driven exploration of the real RegExp object against a transcribed RegExpBuiltinExec state machine (CrossHair/z3)",
        design_ref="DESIGN.md section 4 (C20)"),
    "C15": dict(
        text="The hash seed reaches the engine only through the iteration order of the sets the compiler builds while analysing "
             "scopes. In the checking process the name `set` of microjs.compiler is bound to a subclass whose iteration order is a "
             "permutation chosen by the solver (Lehmer digits, one permutation per distinct content): for 12 closure-heavy programs "
             "(parameters, many locals, captured and pass-through variables, named function expressions, arguments, arrows, "
             "try/catch, constructors) every order of the first 6 (thorough: 8) permuted sets must give the same value as the sorted "
             "order and as the value the program is built to produce - all orders within the bound, not a sample of seeds. Plus: 5 "
             "programs evaluated in one process in every one of the 120 orders (fresh and shared contexts), and evaluation under "
             "a clock whose readings are arbitrary non-decreasing symbolic doubles.",
        technique="solver-chosen permutations of the compiler's set iteration orders (CrossHair/z3 over Lehmer digits), symbolic clock",
        design_ref="DESIGN.md section 4 (C15)"),
    "C16": dict(
        text="Every implemented String.prototype method (and length / index access) is executed on the real "
             "implementation (VM._make_string_method) with the receiver a solver variable ranging over every BMP "
             "string up to the length bound, search strings symbolic, and position arguments either symbolic integers "
             "or solver-chosen indices into an adversarial grid (missing, undefined, null, NaN, infinities, -0, "
             "fractions, 2**31, 2**32+1, 2**53, 1e21, numeric/junk strings, booleans); results (value and type, arrays "
             "elementwise) and RangeError/TypeError outcomes must equal the transcription of ECMA-262 22.1.3.",
        technique="differential symbolic execution of the string built-ins vs a spec transcription (CrossHair/z3)",
        design_ref="DESIGN.md section 4 (C16)"),
    "C11": dict(
        text="The real Context.set/get/eval/_to_python, values.python_to_js and the native call protocol are executed on symbolic "
             "values: JSON-like values are built from solver-chosen shape indices (kind per node, lists/dicts/shared sub-objects, "
             "depth <= 2 quick / 3 thorough) with symbolic leaves (all integers, all doubles, all strings of length <= 2) and keys "
             "from a pool of JavaScript-special names; get(set(v)) and eval(name) must be type-exactly equal to v (True is not 1, "
             "-0.0 keeps its sign, NaN is NaN), share no list/dict with the argument, each other or the context (mutation probes in "
             "both directions). Script results over 16 shape templates with symbolic primitives must convert as specified "
             "(undefined/null -> None, arrays -> lists, objects -> dicts of own data properties: no accessors, no inherited). "
             "Exposed callables: 7 call forms x 0-3 arguments of 11 kinds arrive in order and unchanged; return values of 14 kinds "
             "(None, primitives, lists, dicts, tuples, engine objects) observed through 10 script contexts arrive as the "
             "corresponding JavaScript values; set/get/eval histories of length <= 3 against a dict model.",
        technique="symbolic execution of the real conversion and call-protocol code on symbolic values (CrossHair/z3), solver-indexed shapes",
        design_ref="DESIGN.md section 4 (C11)"),
    "C12": dict(
        text="Histories of <= 2 (quick) / 3 (thorough) operations over two contexts with different limits, each operation a "
             "solver-chosen index into 18 kinds (define var/function, assign, set, get, mutate Object.prototype / Math / built-in "
             "constructors, indirect eval, new Function, throw, runtime TypeError, syntax error, loop forever under a stub clock, "
             "recurse forever into the memory limit, throws from nested eval, regex callbacks and array callbacks) on a "
             "solver-chosen context and name with a symbolic integer payload, all through the public Context API. After every "
             "step every observation (globals, typeof, built-in probes) on BOTH contexts is compared with a one-dict-per-context "
             "model, _current_vm must be cleared, after an error step a probe script (loop, regex, closure, sort, try/finally) "
             "must behave as on a fresh context, and a context created afterwards must be pristine.",
        technique="symbolic execution of the real Context/VM over solver-indexed operation histories (CrossHair/z3), dict model",
        design_ref="DESIGN.md section 4 (C12)"),
    "C13": dict(
        text="The real lexer and parser against a transcription of the ECMAScript expression grammar written as a printer "
             "(vf/refsem/syntax.py): every pair of operator kinds (57 kinds: binary, logical, unary, update, assignment, "
             "conditional, comma, member, call, new, arrow, literals) in every operand position and every triple over one "
             "representative per binding class, printed with exactly the parentheses the grammar requires, must parse to the "
             "intended tree, also with one redundant pair of parentheses at any position; non-reference assignment/update/"
             "for-in targets must raise JSSyntaxError. Layout: white space and comments whose characters are solver variables "
             "over all code points are inserted in 18 token-class contexts (restricted positions get no line terminators), "
             "pinned trivia spellings at every token gap of every corpus program; string literals with symbolic characters "
             "in every spelling mode, escapes, number spellings against exact rational arithmetic, identifiers with symbolic "
             "letters; print/parse round trip of every corpus statement; every closing/opening bracket deleted in turn and "
             "every unterminated string/comment/regex with symbolic content must be rejected.",
        technique="symbolic execution of the real lexer/parser on symbolic source text (CrossHair/z3) + solver-indexed "
                  "operator/gap tables, differential against the transcribed grammar",
        design_ref="DESIGN.md section 4 (C13)"),
    "C14": dict(
        text="Encoding kernels over all sizes: for every opcode with an operand, Compiler._emit / _emit_jump / "
             "_patch_jump are executed with the operand, the jump target and the code size as solver variables in "
             "[0, 2**20] and fed to the real decoder (VM._fetch): either the compiler refuses with a JSError, or every "
             "emitted element satisfies bytes()'s precondition and decodes to exactly the value emitted. From kernel "
             "to program: 15 shape templates whose byte size is affine in the scale n (checked), z3 solves for the n "
             "that crosses each boundary (255/256, 65535/65536), and the real eval is replayed there and up to 4x "
             "beyond against the closed-form result.",
        technique="symbolic execution of the bytecode encoder/decoder pair (CrossHair/z3) + z3-solved boundary sizes, replayed",
        design_ref="DESIGN.md section 4 (C14)"),
    "C06": dict(
        text="Each real opcode handler (and the compiled compound/update/logical forms through eval) is executed "
             "symbolically against a transcription of the ECMAScript abstract operations: all IEEE doubles and all "
             "integers |n|<=2**53 for the arithmetic/relational/equality operators and ToInt32/ToUint32, all strings "
             "of length<=2 over every code point for the string operators, and solver-chosen indices into pinned "
             "boundary grids where the engine crosses into C code (string->number, number->string, bitwise on "
             "Python ints). A bounded universal, not a sample: the right level for a property over all operands.",
        technique="symbolic execution of VM._execute_opcode with z3 (CrossHair), differential against refsem.ops",
        design_ref="DESIGN.md section 4 (C06)"),
}

NOT_APPLICABLE = {
    "C19": "Grammar acceptance and text production are delegated to the host json C module; CrossHair realises "
           "at that boundary (measured: no exhaustion, \"NaN\" not found in 60 s), so no solver verdict over JSON "
           "texts/values is obtainable without assuming the property itself.",
}

PENDING = "check not built yet (framework under construction; see DESIGN.md section 9)"


def main():
    ids = [json.loads(l)["id"] for l in open("properties.jsonl")]
    checks = []
    for pid in ids:
        if pid not in CLAIMS:
            continue
        c = CLAIMS[pid]
        checks.append({
            "property_id": pid,
            "quick_cmd": "python3-vt -m vf.check %s --tier quick" % pid,
            "thorough_cmd": "python3-vt -m vf.check %s --tier thorough" % pid,
            "evidence_file": "/verif/evidence/%s.json" % pid,
            "replay_cmd_template": "/venv/bin/python -m vf.replay {path}",
            "engine": "vf",
            "level_claimed": {"category": "model_checking", "text": c["text"], "design_ref": c["design_ref"]},
            "level_note": LEVEL_NOTE,
            "technique": c["technique"],
        })
    na = []
    for pid in ids:
        if pid in CLAIMS:
            continue
        na.append({"property_id": pid, "reason": NOT_APPLICABLE.get(pid, PENDING)})
    m = {
        "version": 1,
        "setup_cmd": "python3-vt -m vf.selftest",
        "hooks": {
            "guard": "MICROJS_VERIF",
            "enable": "no source hooks: stubs and monitors are installed from outside by the harness process "
                      "(module attributes of microjs.vm / microjs.context are swapped in the checking process only)",
            "baseline_off_cmd": "cd /repo && /venv/bin/python -m pytest -ra -q -p no:cacheprovider --timeout=900 "
                                "--continue-on-collection-errors",
            "source_commits": [],
            "add_only": True,
        },
        "engines": [{"name": "vf", "path": "/verif/vf", "serves_properties": sorted(CLAIMS),
                     "kind_free_text": "own exploration loop over CrossHair 0.0.110 state spaces (z3 5.1): symbolic "
                                       "execution of the real microjs functions, per-path concrete re-run, replay"}],
        "checks": checks,
        "not_applicable": na,
        "notes": "Exit codes of every check: 0 = held on everything explored (KNOWN-FINDING / INCONCLUSIVE lines "
                 "allowed), 1 = VIOLATION reproduced on the real build, 3 = harness error (never a verdict).",
    }
    json.dump(m, open("MANIFEST.json", "w"), indent=1)
    print("claimed:", sorted(CLAIMS), "not applicable / pending:", len(na))


if __name__ == "__main__":
    main()
