"""One-off calibration of vf/refsem/syntax.py (not part of any check): every expression tree of the pair family and
of the representative triple family is (1) printed by the reference printer and evaluated by node, (2) evaluated
directly - as a tree, no parsing - by the definitional interpreter.  Equal outcomes for operand values that separate
the operators show that the printed text denotes the intended tree in a conforming implementation.

usage: python3-vt tools/calibrate_syntax.py [triples]
"""
import json
import subprocess
import sys
import tempfile

sys.path.insert(0, "/repo/src")
sys.path.insert(0, "/verif")
from microjs.parser import Parser            # noqa: E402
from microjs import ast_nodes as A            # noqa: E402
from vf.refsem import syntax as S             # noqa: E402
from vf.refsem import interp as I             # noqa: E402
from vf.refsem import ops as R                # noqa: E402
from vf.refsem.num import Unspecified         # noqa: E402
from vf.skel import exprgen as G              # noqa: E402

PRE = "var a = 2, b = 3, c = 2, d = 5, e = 7, f = 4, x = 1; "
NODE = r"""
const items = JSON.parse(require('fs').readFileSync(process.argv[2], 'utf8'));
const out = [];
for (const s of items) {
  let r;
  try { const v = (0, eval)(s); r = ['v', typeof v === 'function' ? 'function' : (typeof v === 'object' && v !== null ? 'object' : String(v))]; }
  catch (e) { r = ['t', e.name]; }
  out.push(r);
}
console.log(JSON.stringify(out));
"""


def ref_outcome(tree):
    prog = Parser(PRE).parse()
    prog.body.append(A.ExpressionStatement(tree))
    prog.body.append(Parser("[__r, a, b, c, d, e, f].join()").parse().body[0])
    prog.body[-2] = A.ExpressionStatement(A.AssignmentExpression("=", A.Identifier("__r"), A.CallExpression(
        A.Identifier("__show"), [tree])))
    it = I.Interp(max_steps=20000)

    def show(this, args):
        v = args[0]
        if isinstance(v, I.RFun):
            return "function"
        if isinstance(v, I.RObj):
            return "object"
        return R.to_string(v)
    it.globals["__show"] = it.host("__show", show)
    try:
        return ["v", it.run(prog)]
    except I.ThrowEx as t:
        v = t.value
        name = it.get(v, "name") if isinstance(v, I.RObj) else "?"
        return ["t", name]


def main():
    triples = len(sys.argv) > 1
    cases = []
    n = len(G.KINDS)
    if not triples:
        for k0 in range(n):
            for k1 in range(n):
                for s in range(G.KINDS[k0][1]):
                    cases.append(([k0, k1], [s]))
    else:
        reps = G.REPRESENTATIVES
        for k0 in reps:
            for k1 in reps:
                for k2 in reps:
                    for s1 in range(G.n_leaves([k0])):
                        for s2 in range(G.n_leaves([k0, k1])):
                            cases.append(([k0, k1, k2], [s1, s2]))
    items, refs, keep = [], [], []
    skipped = 0
    for kinds, slots in cases:
        tree, valid = G.build(kinds, slots)
        if not valid:
            continue
        try:
            r = ref_outcome(tree)
        except (I.Unsupported, Unspecified, I.StepLimit, RecursionError):
            skipped += 1
            continue
        src = PRE + "var __r = __show((" + S.source(tree) + ")); [__r, a, b, c, d, e, f].join()"
        items.append("function __show(v){return typeof v==='function'?'function':(typeof v==='object'&&v!==null?'object':String(v))}; " + src)
        refs.append(r)
        keep.append((kinds, slots, S.source(tree)))
    with tempfile.NamedTemporaryFile("w", suffix=".json", delete=False) as f:
        json.dump(items, f)
    with tempfile.NamedTemporaryFile("w", suffix=".js", delete=False) as g:
        g.write(NODE)
    out = json.loads(subprocess.run(["node", g.name, f.name], capture_output=True, text=True, check=True).stdout)
    bad = 0
    for (kinds, slots, src), r, o in zip(keep, refs, out):
        if r != o:
            bad += 1
            if bad <= 25:
                print("DIFF", [G.NAMES[k] for k in kinds], slots, src, "ref", r, "node", o)
    print("%d trees compared, %d differ, %d not evaluated by the oracle" % (len(keep), bad, skipped))


if __name__ == "__main__":
    main()
