#!/usr/bin/env python3
"""Markdown table of the seeded changes under /verif/seeded (which check catches which change)."""
import glob
import json
import os
import re

rows = []
for d in sorted(glob.glob("/verif/seeded/*/meta.json")):
    m = json.load(open(d))
    note = " ".join((m.get("needs_to_manifest") or "").split())
    note = re.sub(r"^Change( \d)?\s*(\([^)]*\))?:?\s*", "", note)
    first = note[:260]
    hs = sorted({re.search(r"harness=(\S+)", l).group(1).rsplit(".", 1)[0] for l in m.get("check_lines", []) if "harness=" in l})
    rows.append("| %s | %s | %s | %s |" % (m["name"], first.replace("|", "/"), "yes" if m.get("detected") else "**no**",
                                           ", ".join(hs)[:160]))
print("| change | what it does (sub-agent's note, first sentence) | detected by quick check | harness families that refuted it |")
print("|---|---|---|---|")
print("\n".join(rows))
