"""Object-model histories (C08): a fixed prelude builds a small object graph (a three-level chain, a constructor with a
prototype, an instance, an array, a function used as an object); a history is a sequence of statements chosen by
index; after every step the function obs() logs every observation on every object of the graph."""

PRELUDE = """
var P = {inh: 1, both: 2, tag: 'P'};
var M = Object.create(P); M.mid = 3; M.both = 4; M.tag = 'M';
var O = Object.create(M); O.own = 5; O.tag = 'O';
function F(v) { this.fv = v; this.tag = 'I'; }
F.prototype.fm = function () { return this.fv; };
F.prototype.shared = 7;
F.prototype.tag = 'FP';
var I = new F(8);
var N = {tag: 'N'};
var FP0 = F.prototype;
var OP = Object.getPrototypeOf({});
var HOP = OP.hasOwnProperty;
function who(x) {
  return x === P ? 'P' : x === M ? 'M' : x === O ? 'O' : x === I ? 'I' : x === N ? 'N' : x === FP0 ? 'FP0' : x === F.prototype ? 'FP'
       : x === OP ? 'OP' : x === null ? 'null' : x === undefined ? 'undefined' : typeof x === 'function' ? 'fn' : typeof x === 'object' ? 'obj' : x;
}
var KS = ['own', 'inh', 'both', 'k', '1', 'fm', 'acc'];
function obs() {
  var ts = [P, M, O, I, N, FP0], i, j, t, k, ks, s;
  for (i = 0; i < ts.length; i++) {
    t = ts[i];
    for (j = 0; j < KS.length; j++) {
      k = KS[j];
      log(i, k, who(t[k]), k in t, HOP.call(t, k));
    }
    log(i, 'keys', Object.keys(t).sort().join());
    ks = []; for (k in t) { ks.push(k); } log(i, 'forin', ks.sort().join());
    s = Object.values(t).length + '/' + Object.entries(t).length;
    log(i, 'values', s);
    log(i, 'proto', who(Object.getPrototypeOf(t)), t instanceof F, t instanceof Object);
  }
  log('F', who(F.prototype), F.sp, typeof F.prototype.constructor, who(new F(1).tag), new F(2) instanceof F, I instanceof F);
}
"""

TARGETS = ["P", "M", "O", "I", "N", "F.prototype"]
KEYS = ["'own'", "'both'", "'inh'", "'k'", "1", "'1'", "'acc'", "'fm'"]

# (name, template, needs key?)  T = target, K = key, V = value, U = second target
OPS = [
    ("set", "T[K] = V;", True),
    ("set-dot", "T.k = V; T.both = V + 1;", False),
    ("delete", "log('del', delete T[K]);", True),
    ("delete-twice", "log('del', delete T[K], delete T[K]);", True),
    ("getter", "Object.defineProperty(T, K, {get: function () { return 'G' + this.tag; }, configurable: true, enumerable: true});", True),
    ("setter", "Object.defineProperty(T, K, {set: function (v) { log('S', this.tag, v); this.set_seen = v; }, configurable: true, enumerable: true});", True),
    ("accessor-literal", "N = {tag: 'N', get acc() { return 'L' + this.tag; }, set acc(v) { log('LS', this.tag, v); }, __proto__: T};", False),
    ("define-value", "Object.defineProperty(T, K, {value: V, writable: true, enumerable: true, configurable: true});", True),
    ("write-through", "O[K] = V; I[K] = V + 1;", True),
    ("set-proto", "Object.setPrototypeOf(T, U);", False),
    ("set-proto-null", "Object.setPrototypeOf(T, null);", False),
    ("create", "N = Object.create(T); N.tag = 'N'; N.k = V;", False),
    ("ctor-proto", "F.prototype = T; I = new F(V);", False),
    ("ctor-proto-method", "F.prototype = {tag: 'FP', fm: function () { return 'new' + this.fv; }}; N = new F(V); log('cm', N.fm(), I.fm());", False),
    ("fn-prop", "F.sp = V; F[K] = V; log('fp', F.sp, F[K], 'sp' in F, F.hasOwnProperty('sp'), Object.keys(F).sort().join());", True),
    ("proto-prop", "F.prototype[K] = V; log('pp', I[K], new F(0)[K]);", True),
    ("method-this", "T.m = function () { return this.tag; }; log('mt', T.m(), O.m ? O.m() : 'none', I.m ? I.m() : 'none');", False),
    ("literal-proto", "N = {__proto__: T, tag: 'N', k: V};", False),
    ("inc-inherited", "O[K]++; I[K] += V;", True),
    ("ctor-return", "var G = function () { this.a = 1; return T; }; N = new G(); log('cr', who(N), N instanceof G);", False),
]


def history(steps, values):
    """steps: list of (op index, target index, key index, second target index); values: list of ints."""
    out = [PRELUDE, "obs();"]
    for (o, t, k, u), v in zip(steps, values):
        name, tmpl, _ = OPS[o]
        st = tmpl.replace("T", TARGETS[t]) if False else tmpl
        # careful replacement: whole-word T, K, V, U only
        import re
        st = re.sub(r"\bT\b", TARGETS[t], tmpl)
        st = re.sub(r"\bK\b", KEYS[k], st)
        st = re.sub(r"\bU\b", ["P", "N", "OP"][u % 3], st)
        st = re.sub(r"\bV\b", str(v), st)
        out.append("log('step', %r); try { %s } catch (e) { log('threw', e.name); }" % (name, st))
        out.append("obs();")
    return "\n".join(out)


def legal(steps):
    """No prototype cycles and no history the reference model does not cover."""
    proto = {"P": "OP", "M": "P", "O": "M", "I": "FP", "N": "OP", "F.prototype": "OP"}
    for (o, t, k, u) in steps:
        name = OPS[o][0]
        T = TARGETS[t]
        if name == "set-proto":
            U = ["P", "N", "OP"][u % 3]
            if T == U:
                return False
            # would U reach T?
            x, seen = U, 0
            while x in proto and seen < 10:
                if x == T:
                    return False
                x = proto[x]
                seen += 1
            if x == T:
                return False
            proto[T] = U
        elif name == "set-proto-null":
            proto[T] = None
        elif name in ("create", "literal-proto", "accessor-literal"):
            proto["N"] = T
            if T == "N":
                return False
        elif name == "ctor-proto":
            proto["I"] = T
            if T == "I":
                return False
        elif name == "ctor-return":
            pass
    return True
