"""Skeleton programs of the statement grammar (DESIGN 4, C05/C02).

Every program reads its *data* from globals set by the harness: N (loop bound), C0..C2 (small
integers steering which exit is taken on which iteration).  The syntax is the finite family, the data
is symbolic.  Each program logs through the host function log(...) and ends with the expression R.
`probe()` marks loop heads for the depth monitor (C02); for C05 it is a no-op host function.
"""

LOOPS = ("while", "dowhile", "for", "forin", "forof")
EXITS = ("none", "break", "continue", "return", "returnB", "breakL", "continueL")


def loop(kind, var, bound, body, label=None):
    """A loop running `var` over 0..bound-1 (bound: a JS expression) with statement list `body`."""
    lab = (label + ": ") if label else ""
    if kind == "while":
        return "%s = 0; %swhile (%s < %s) { var %s_ = %s; %s++; { probe(); %s } }" % (
            var, lab, var, bound, var, var, var, body.replace("@", var + "_"))
    if kind == "dowhile":
        return "%s = 0; if (%s > 0) { %sdo { var %s_ = %s; %s++; { probe(); %s } } while (%s < %s); }" % (
            var, bound, lab, var, var, var, body.replace("@", var + "_"), var, bound)
    if kind == "for":
        return "%sfor (%s = 0; %s < %s; %s++) { probe(); %s }" % (lab, var, var, bound, var, body.replace("@", var))
    if kind == "forin":
        return ("var %s_o = {}; for (var %s_j = 0; %s_j < %s; %s_j++) { %s_o['k' + %s_j] = %s_j; } "
                "%sfor (var %s_k in %s_o) { var %s = %s_o[%s_k]; probe(); %s }") % (
            var, var, var, bound, var, var, var, var, lab, var, var, var, var, var, body.replace("@", var))
    if kind == "forof":
        return ("var %s_a = []; for (var %s_j = 0; %s_j < %s; %s_j++) { %s_a.push(%s_j); } "
                "%sfor (var %s of %s_a) { probe(); %s }") % (
            var, var, var, bound, var, var, var, lab, var, var, body.replace("@", var))
    raise KeyError(kind)


def exit_stmt(kind, label="outer"):
    return {"none": "log('x', @);", "break": "break;", "continue": "continue;", "return": "return @ * 10 + 7;", "returnB": "return;",
            "breakL": "break %s;" % label, "continueL": "continue %s;" % label}[kind]


def body_with_exit(exit_kind, cond="C0", label="outer"):
    return "log('a', @); if (@ === %s) { log('e', @); %s } log('b', @);" % (cond, exit_stmt(exit_kind, label))


def wrap_main(stmts, ret="R"):
    return ("var R = 0; var i, j, o; function probe() { return pr(); } "
            "function main() { %s return 'end'; } R = main(); log('R', R); R;") % stmts


def programs():
    """[(id, source)] - the C05 control-flow family."""
    out = []
    # 1. single loop x exit
    for lk in LOOPS:
        for ek in ("none", "break", "continue", "return", "returnB"):
            out.append(("loop.%s.%s" % (lk, ek), wrap_main(loop(lk, "i", "N", body_with_exit(ek)))))
    # 2. nested loops: inner exit with and without label, every inner/outer kind pairing of for/while + for-in/of
    for ok in ("for", "while", "dowhile", "forof", "forin"):
        for ik in LOOPS:
            for ek in ("break", "continue", "breakL", "continueL", "return", "returnB"):
                if ok in ("dowhile", "forin", "forof") and ik not in ("for", "forin") :
                    continue
                inner = loop(ik, "j", "N", "log('in', i, @); if (@ === C0 && i === C1) { log('e', i, @); %s } log('ib', @);"
                             % exit_stmt(ek))
                outer = loop(ok, "i", "2", "log('out', @); %s log('ob', @);" % inner.replace("@", "j"), label="outer")
                out.append(("nest.%s.%s.%s" % (ok, ik, ek), wrap_main(outer)))
    # 3. switch: fall-through, default in each position, break inside switch inside loop, continue through switch
    cases = {
        "default-last": "case 0: log('c0'); case 1: log('c1'); break; case 2: log('c2'); default: log('d');",
        "default-first": "default: log('d'); case 0: log('c0'); break; case 1: log('c1'); case 2: log('c2');",
        "default-mid": "case 0: log('c0'); break; default: log('d'); case 1: log('c1'); break; case 2: log('c2');",
        "no-default": "case 0: log('c0'); case 1: log('c1'); break; case 2: log('c2');",
    }
    for name, cs in cases.items():
        out.append(("switch.%s" % name, wrap_main("switch (C0) { %s } log('after');" % cs)))
        for lk in ("for", "while", "forof", "forin", "dowhile"):
            body = "log('a', @); switch (@ + C0) { %s } log('b', @);" % cs
            out.append(("switch.in-loop.%s.%s" % (lk, name), wrap_main(loop(lk, "i", "N", body))))
    for lk in LOOPS:
        body = ("log('a', @); switch (@) { case 0: if (C0 === 0) { continue; } log('s0'); break; "
                "case 1: if (C0 === 1) { break; } log('s1'); default: log('sd'); if (C1 === @) { return @; } } log('b', @);")
        out.append(("switch.exits.%s" % lk, wrap_main(loop(lk, "i", "N", body))))
        # loop inside a switch, exits of the loop vs of the switch
        inner = loop(lk, "j", "N", "log('in', @); if (@ === C1) { break; } if (@ === C2) { continue; } log('ib', @);")
        out.append(("switch.around.%s" % lk, wrap_main(
            "switch (C0) { case 0: log('c0'); %s log('after-loop'); case 1: log('c1'); break; default: log('d'); } log('end');"
            % inner)))
    # 4. labelled blocks and labelled loops
    out.append(("label.block", wrap_main("blk: { log('a'); if (C0 === 0) { break blk; } log('b'); } log('after');")))
    for lk in LOOPS:
        out.append(("label.loop-break.%s" % lk, wrap_main(
            loop(lk, "i", "N", "log('a', @); if (@ === C0) { break outer; } log('b', @);", label="outer") + " log('after');")))
        out.append(("label.loop-continue.%s" % lk, wrap_main(
            loop(lk, "i", "N", "log('a', @); if (@ === C0) { continue outer; } log('b', @);", label="outer") + " log('after');")))
    # 5. function called from a loop in an expression context, leaving a construct early inside
    ctxs = {"stmt": "f(@);", "left": "R = f(@) + 100; log('r', R);", "right": "R = 100 + f(@); log('r', R);",
            "arg": "R = g(1, f(@), 3); log('r', R);", "key": "R = T[f(@) % 3]; log('r', R);",
            "elem": "R = [1, f(@), 3]; log('r', R[0], R[1], R[2]);", "nested": "R = g(@, g(2, f(@), 4), 5); log('r', R);"}
    for lk in LOOPS:
        for ek in ("break", "continue", "return", "returnB"):
            fbody = loop(lk, "q", "N", "if (q === C0) { %s } log('f', p, q);" % exit_stmt(ek).replace("@", "q"))
            for cname, ctx in ctxs.items():
                if cname not in ("left", "arg", "stmt") and lk in ("while", "dowhile"):
                    continue
                src = ("var R = 0; var i, j, o; var T = [10, 20, 30]; function probe() { return pr(); } "
                       "function g(a, b, c) { return a * 100 + b * 10 + c; } "
                       "function f(p) { var q; %s return p + 1; } "
                       "function main() { %s return 'end'; } R = main(); log('R', R); R;") % (
                    fbody, loop("for", "i", "2", ctx))
                out.append(("call.%s.%s.%s" % (lk, ek, cname), src))
    for cname, ctx in ctxs.items():
        src = ("var R = 0; var i, j, o; var T = [10, 20, 30]; function probe() { return pr(); } "
               "function g(a, b, c) { return a * 100 + b * 10 + c; } "
               "function f(p) { switch (p + C0) { case 0: log('s0'); return; case 1: log('s1'); return p + 1; "
               "case 2: log('s2'); break; default: log('sd'); } return p + 2; } "
               "function main() { %s return 'end'; } R = main(); log('R', R); R;") % loop("for", "i", "3", ctx)
        out.append(("call.switch-return.%s" % cname, src))
    # 6. operand order
    out.append(("order.binary", wrap_main("R = (log('l'), 1) + (log('r'), 2) - (log('m'), C0); log('v', R);")))
    out.append(("order.call", wrap_main("function h(a, b, c) { return a + b + c; } R = h((log(1), C0), (log(2), C1), (log(3), C2)); log('v', R);")))
    out.append(("order.member", wrap_main("var ob = {a: 1, b: 2}; R = ob[(log('k'), C0 === 0 ? 'a' : 'b')] + (log('x'), 5); log('v', R);")))
    out.append(("order.assign", wrap_main("var ob = {a: 1}; ob[(log('k'), 'a')] = (log('v'), C0); log(ob.a);")))
    out.append(("order.logical", wrap_main("R = ((log('a'), C0) && (log('b'), C1)) || (log('c'), C2); log('v', R);")))
    out.append(("order.cond", wrap_main("R = (log('t'), C0) ? (log('y'), 1) : (log('n'), 2); log('v', R);")))
    return out


def closure_programs():
    """[(id, source)] - closures: the sequence of calls is data (K0..K2 select which closure is called)."""
    out = []
    pre = "var R = 0; function probe() { return pr(); } "
    post = " log('R', R); R;"

    def calls(names):
        # three calls selected by K0..K2 among the closures in `names`
        sel = "".join("if (k === %d) { return %s(); } " % (i, n) for i, n in enumerate(names))
        return ("function pickcall(k) { %s return -1; } log(pickcall(K0)); log(pickcall(K1)); log(pickcall(K2));" % sel)
    out.append(("closure.counter", pre + "function mk() { var c = 0; return function() { c = c + 1; return c; }; } "
                "var a = mk(); var b = mk(); " + calls(["a", "b"]) + post))
    out.append(("closure.shared", pre + "function mk() { var c = C0; return [function() { c = c + 1; return c; }, "
                "function() { c = c + c; return c; }, function() { return c; }]; } var t = mk(); var u = mk(); "
                "var a = t[0], b = t[1], d = t[2], e = u[1]; " + calls(["a", "b", "d", "e"]) + post))
    out.append(("closure.in-loop", pre + "var fs = []; for (var i = 0; i < 3; i++) { fs.push(function() { return i; }); } "
                "function mk(v) { return function() { return v; }; } var gs = []; for (var j = 0; j < 3; j++) { gs.push(mk(j + C0)); } "
                "var a = fs[0], b = fs[2], d = gs[0], e = gs[2]; " + calls(["a", "b", "d", "e"]) + post))
    out.append(("closure.param", pre + "function mk(p, q) { var l = p + q; return function(x) { p = p + 1; return '' + p + '/' + q + '/' + l; }; } "
                "var a = mk(C0, 1); var b = mk(2, C1); " + calls(["a", "b"]) + post))
    out.append(("closure.named-fexpr", pre + "var fact = function me(n) { return n <= 1 ? 1 : n + me(n - 1); }; "
                "var a = function() { return fact(C0); }; var b = function() { return fact(3); }; " + calls(["a", "b"]) + post))
    out.append(("closure.arguments", pre + "function mk() { var args = arguments; return function() { return args[0] + args.length; }; } "
                "var a = mk(C0, 2, 3); var b = mk(C1); " + calls(["a", "b"]) + post))
    out.append(("closure.passthrough", pre + "function l1(x) { var y = x + 1; return function l2() { return function l3() { x = x + 1; return '' + x + '/' + y; }; }; } "
                "var a = l1(C0)(); var b = l1(5)(); " + calls(["a", "b"]) + post))
    out.append(("closure.sibling-vars", pre + "function mk() { var p = 1, q = 2, r = 3, s = C0; "
                "function f1() { q = q + s; return q; } function f2() { r = r + p; return r; } function f3() { return p + q + r + s; } "
                "return [f1, f2, f3]; } var t = mk(); var a = t[0], b = t[1], d = t[2]; " + calls(["a", "b", "d"]) + post))
    out.append(("closure.passthrough-shared", pre + "function l1() { var x = C0; function mid() { return function() { x = x + 1; return x; }; } "
                "var i1 = mid(); var i2 = mid(); return [i1, i2, function() { return x; }, function() { x = x + 10; return x; }]; } "
                "var t = l1(); var a = t[0], b = t[1], d = t[2], e = t[3]; " + calls(["a", "b", "d", "e"]) + post))
    out.append(("closure.owner-writes-after", pre + "function l1() { var x = 1; function mid() { return function() { return x; }; } var g = mid(); "
                "x = C0 + 5; var h = mid(); x = x + 1; return [g, h, function() { x = x + 1; return x; }]; } "
                "var t = l1(); var a = t[0], b = t[1], d = t[2]; " + calls(["a", "b", "d"]) + post))
    out.append(("closure.nested-callback-accumulate", pre + "function sum() { var tot = C0; [1, 2].forEach(function(p) { [10, 20].forEach(function(q) { tot = tot + p + q; }); }); return tot; } "
                "function sum2() { var tot = 0; var add = function(v) { return function() { tot = tot + v; return tot; }; }; var x1 = add(1), x5 = add(5); x1(); x5(); x1(); return tot + C1; } "
                "var a = sum, b = sum2; " + calls(["a", "b"]) + post))
    out.append(("closure.param-passthrough", pre + "function l1(p) { function mid() { return function() { p = p + 1; return p; }; } var i1 = mid(); "
                "return [i1, function() { return p; }]; } var t = l1(C0); var a = t[0], b = t[1]; " + calls(["a", "b"]) + post))
    out.append(("closure.three-level-read-write", pre + "function l1() { var x = 0, y = 100; function m1() { function m2() { return function() { x = x + 1; y = y - 1; return x + y; }; } return m2(); } "
                "var w = m1(); return [w, function() { return x; }, function() { return y; }, function() { x = x + C0; return x; }]; } "
                "var t = l1(); var a = t[0], b = t[1], d = t[2], e = t[3]; " + calls(["a", "b", "d", "e"]) + post))
    out.append(("closure.forin-var", pre + "function mk() { var fs = []; for (var k in {a: 1, b: 2, c: 3}) { fs.push(function() { return k; }); } "
                "var gs = []; for (var v of [C0, 5, 6]) { gs.push(function() { v = v + 1; return v; }); } return [fs[0], fs[2], gs[0], gs[1]]; } "
                "var t = mk(); var a = t[0], b = t[1], d = t[2], e = t[3]; " + calls(["a", "b", "d", "e"]) + post))
    out.append(("closure.outer-loop-var", pre + "function mk() { var k = 'none'; var seen = []; function run() { for (k of [C0, C1]) { seen.push(k); } return seen.length; } "
                "return [run, function() { return k; }]; } var t = mk(); var a = t[0], b = t[1]; " + calls(["a", "b"]) + post))
    out.append(("closure.typeof-captured", pre + "function mk() { var x = C0; var u; var g = function() { return typeof x + '/' + typeof u + '/' + typeof zzz_undeclared; }; "
                "return [function() { return typeof x; }, g, function() { u = 'now'; return typeof u; }, function() { return typeof mk + typeof g; }]; } "
                "function own() { var x = 1; var h = function() { return x; }; return typeof x + '/' + typeof h; } "
                "var t = mk(); var a = t[0], b = t[1], d = t[2], e = own; " + calls(["a", "b", "d", "e"]) + post))
    out.append(("closure.redeclare", pre + "function mk() { var x = C0; var x; var r = []; for (var i = 0; i < 3; i++) { var v; if (i === C1) { v = 'set' + i; } r.push(v); } "
                "return [function() { return x; }, function() { return r.join(','); }]; } var g1 = 5; var g1; "
                "var t = mk(); var a = t[0], b = t[1], d = function() { return g1; }; " + calls(["a", "b", "d"]) + post))
    out.append(("closure.recursion", pre + "function fib(n) { return n < 2 ? n : fib(n - 1) + fib(n - 2); } "
                "function ev(n) { return n === 0 ? 1 : od(n - 1); } function od(n) { return n === 0 ? 0 : ev(n - 1); } "
                "var a = function() { return fib(C0 + 2); }; var b = function() { return ev(C1); }; " + calls(["a", "b"]) + post))
    out.append(("closure.arrow", pre + "function mk() { var c = C0; var inc = () => { c = c + 1; return c; }; var get = () => c; return [inc, get]; } "
                "var t = mk(); var a = t[0], b = t[1]; " + calls(["a", "b"]) + post))
    out.append(("closure.loop-var-captured", pre + "function mk() { var acc = 0; for (var i = 0; i < N; i++) { (function(k) { acc = acc + k + i; })(i + i); } return function() { return acc; }; } "
                "var a = mk(); var b = function() { return N; }; " + calls(["a", "b"]) + post))
    return out
