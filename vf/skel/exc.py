"""Skeleton programs for exceptions (DESIGN 4, C07): throw site x handler placement x try shape x exits."""

PRELUDE = (
    "var R = 0; var X = 0; var i; function probe() { return pr(); } "
    "function g(a, b, c) { return '' + a + '/' + b + '/' + c; } "
    "function d(e) { if (typeof e === 'object' && e !== null) { "
    "return [e instanceof Error, e instanceof TypeError, e instanceof ReferenceError, e instanceof RangeError, "
    "e.name, e.tag, typeof e.message]; } return e; } ")

# each site defines t(x): throws when x === C0, otherwise returns x (or something derived from x)
SITES = {
    "stmt-prim": "function t(x) { if (x === C0) { throw 'v' + x; } return x; }",
    "stmt-num": "function t(x) { if (x === C0) { throw x + 100; } return x; }",
    "stmt-obj": "function t(x) { if (x === C0) { throw {tag: x}; } return x; }",
    "stmt-error": "function t(x) { if (x === C0) { throw new Error('m' + x); } return x; }",
    "stmt-typeerror": "function t(x) { if (x === C0) { throw new TypeError('m' + x); } return x; }",
    "null-prop": "function t(x) { var o = (x === C0) ? null : {p: x}; return o.p; }",
    "undef-prop": "function t(x) { var o = (x === C0) ? undefined : {p: x}; return o.p; }",
    "null-set": "function t(x) { var o = (x === C0) ? null : {p: x}; o.p = x; return x; }",
    "not-fn": "function t(x) { var nf = (x === C0) ? 5 : function() { return x; }; return nf(); }",
    "not-method": "function t(x) { var o = {m: (x === C0) ? undefined : function() { return x; }}; return o.m(); }",
    "not-ctor": "function t(x) { var K = (x === C0) ? 5 : function() { this.v = x; }; return new K().v; }",
    "unknown-id": "function t(x) { if (x === C0) { return zzz_undefined_name; } return x; }",
    "getter": "var G = { k: 0, get p() { if (this.k === C0) { throw 'g' + this.k; } return this.k; } }; function t(x) { G.k = x; return G.p; }",
    "setter": "var G = { k: 0, set p(v) { if (v === C0) { throw 's' + v; } this.k = v; } }; function t(x) { G.p = x; return G.k; }",
    "valueOf": "function t(x) { var o = { valueOf: function() { if (x === C0) { throw 'vo' + x; } return x; } }; return o - 0; }",
    "toString": "function t(x) { var o = { toString: function() { if (x === C0) { throw 'ts' + x; } return 's' + x; } }; return '' + o; }",
    "ctor": "function K(x) { if (x === C0) { throw 'k' + x; } this.v = x; } function t(x) { return new K(x).v; }",
    "call": "function inner(x) { if (x === C0) { throw 'ca' + x; } return x; } function t(x) { return inner.call(null, x); }",
    "apply": "function inner(x) { if (x === C0) { throw 'ap' + x; } return x; } function t(x) { return inner.apply(null, [x]); }",
    "bind": "function inner(x) { if (x === C0) { throw 'bi' + x; } return x; } function t(x) { return inner.bind(null, x)(); }",
    "cb-forEach": "function t(x) { var r = -1; [x, x + 10].forEach(function(v) { if (v === C0) { throw 'cb' + v; } r = v; }); return r; }",
    "cb-map": "function t(x) { return [x].map(function(v) { if (v === C0) { throw 'cb' + v; } return v; })[0]; }",
    "cb-filter": "function t(x) { return [x, 7].filter(function(v) { if (v === C0) { throw 'cb' + v; } return true; }).length; }",
    "cb-some": "function t(x) { return [x].some(function(v) { if (v === C0) { throw 'cb' + v; } return false; }) ? 1 : 0; }",
    "cb-every": "function t(x) { return [x].every(function(v) { if (v === C0) { throw 'cb' + v; } return true; }) ? 1 : 0; }",
    "cb-reduce": "function t(x) { return [x, 1].reduce(function(a, v) { if (a === C0) { throw 'cb' + a; } return a + v; }); }",
    "cb-nested": "function t(x) { var r = 0; [1].forEach(function() { [x].forEach(function(v) { if (v === C0) { throw 'cb' + v; } r = v; }); }); return r; }",
    "cb-catch-inside": "function t(x) { var r = 0; [x, x + 1].forEach(function(v) { try { if (v === C0) { throw 'in' + v; } r = r + v; } catch (e) { log('inner', e); } }); if (x + 1 === C0) { throw 'after' + x; } return r; }",
    "deep": "function t3(x) { if (x === C0) { throw 'deep' + x; } return x; } function t2(x) { return t3(x) + 0; } function t(x) { return t2(x) + 0; }",
    "finally-in-callee": "function t(x) { try { if (x === C0) { throw 'fc' + x; } return x; } finally { log('callee-finally', x); } }",
    "rethrow-in-callee": "function t(x) { try { if (x === C0) { throw 'rc' + x; } return x; } catch (e) { log('callee-catch', e); throw 'again' + x; } }",
}

CTXS = {"plain": "t(i)", "operand": "1 + t(i)", "arg": "g(1, t(i), 3)", "elem": "[1, t(i)][1]"}

EXITS = {"none": "", "break": "break;", "continue": "continue;", "return": "return 'r' + i;", "throw": "throw 'x' + i;"}


def A(ctx, exit_a):
    ex = (" if (i === C1) { log('xa', i); %s }" % EXITS[exit_a]) if exit_a != "none" else ""
    return "log('t', i); X = %s; log('u', X);%s" % (CTXS[ctx], ex)


def B(exit_b, name="e"):
    ex = (" if (i === C2) { log('xb', i); %s }" % EXITS[exit_b]) if exit_b != "none" else ""
    return "log('c', d(%s));%s" % (name, ex)


def shape(kind, a, b, fin_exit="none"):
    f = "log('f', i);" + ((" if (i === C2) { %s }" % EXITS[fin_exit]) if fin_exit != "none" else "")
    if kind == "tc":
        return "try { %s } catch (e) { %s }" % (a, b)
    if kind == "tf":
        return "try { try { %s } finally { %s } } catch (e2) { log('c2', d(e2)); }" % (a, f)
    if kind == "tcf":
        return "try { %s } catch (e) { %s } finally { %s }" % (a, b, f)
    if kind == "nested":
        return ("try { try { %s } catch (e) { %s } finally { %s } } catch (e2) { log('outer', d(e2)); } "
                "finally { log('F2', i); }") % (a, b, f)
    if kind == "none":
        return a
    raise KeyError(kind)


def program(site, kind, ctx="operand", exit_a="none", exit_b="none", fin_exit="none", via_caller=False,
            main_loop="for"):
    a = A(ctx, exit_a)
    if via_caller:
        a = a.replace("t(i)", "w(i)")
    body = shape(kind, a, B(exit_b), fin_exit)
    w = "function w(x) { var y = t(x); log('w', y); return y; } " if via_caller else ""
    if main_loop == "forof":
        head = "var it = []; for (i = 0; i < N; i++) { it.push(i); } for (i of it) {"
    elif main_loop == "forin":
        head = "var it = {}; for (i = 0; i < N; i++) { it['k' + i] = i; } for (var ik in it) { i = it[ik];"
    else:
        head = "for (i = 0; i < N; i++) {"
    # a late throw after the loop, caught outside main(): any handler left installed by an exit path inside
    # the loop would intercept it
    return (PRELUDE + SITES[site] + " " + w +
            "function main() { %s probe(); log('i', i); %s log('b', i); } if (C1 === -1) { throw 'late'; } return 'end'; } "
            "try { R = main(); } catch (late) { log('late', d(late)); } log('R', R); R;") % (head, body)


def programs():
    out = []
    for s in SITES:
        out.append(("site.%s.tcf" % s, program(s, "tcf")))
        out.append(("site.%s.nested-rethrow" % s, program(s, "nested", exit_b="throw")))
        out.append(("site.%s.uncaught" % s, program(s, "none")))
        out.append(("site.%s.caller" % s, program(s, "tc", via_caller=True)))
        out.append(("site.%s.tcf-forof" % s, program(s, "tcf", ctx="arg", main_loop="forof")))
        out.append(("site.%s.tc-forin" % s, program(s, "tc", ctx="elem", main_loop="forin")))
    for kind in ("tc", "tf", "tcf", "nested"):
        for ctx in ("plain", "arg"):
            for ea in ("none", "break", "continue", "return"):
                for eb in ("none", "break", "continue", "return", "throw"):
                    if kind == "tf" and eb != "none":
                        continue
                    out.append(("shape.%s.%s.%s.%s" % (kind, ctx, ea, eb), program("stmt-prim", kind, ctx, ea, eb)))
                    if ctx == "arg" and (ea != "none" or eb != "none"):
                        out.append(("shape-forof.%s.%s.%s" % (kind, ea, eb),
                                    program("stmt-prim", kind, ctx, ea, eb, main_loop="forof")))
        for fe in ("break", "continue", "return", "throw"):
            if kind == "tc":
                continue
            out.append(("shape.%s.finally-%s" % (kind, fe), program("stmt-prim", kind, "operand", "none", "none", fe)))
            out.append(("shape.%s.finally-%s.over-return" % (kind, fe), program("stmt-prim", kind, "operand", "return", "none", fe)))
    for s in ("cb-forEach", "cb-map", "cb-reduce", "cb-nested", "getter", "valueOf", "ctor"):
        for kind in ("tf", "nested"):
            out.append(("native.%s.%s" % (s, kind), program(s, kind, "arg", "continue", "throw")))
    return out
