"""Pattern ASTs for the regex properties (C09/C10/C20): enumerated families + a seeded generator."""
import random

A, B, C = ("char", "a"), ("char", "b"), ("char", "c")
DOT = ("dot",)
CAB = ("class", False, [("range", "a", "b")])
CNA = ("class", True, [("range", "a", "a")])
CMIX = ("class", False, [("range", "a", "a"), ("esc", "d"), ("range", "x", "z")])
CNS = ("class", False, [("esc", "S")])
CNW = ("class", True, [("esc", "w"), ("range", " ", " ")])
ESC = [("esc", k) for k in "dwsDWS"]
ATOMS = [A, B, DOT, CAB, CNA] + ESC[:3]
ASSERTS = [("assert", k) for k in ("start", "end", "b", "B")]
QUANTS = [(0, None, True), (1, None, True), (0, 1, True), (0, None, False), (1, None, False), (0, 1, False),
          (2, 2, True), (1, 2, True), (2, None, True), (1, 2, False), (0, 2, True), (0, 0, True)]


def seq(*xs):
    return ("seq", list(xs))


def alt(*xs):
    return ("alt", list(xs))


def q(x, k):
    mn, mx, g = QUANTS[k] if isinstance(k, int) else k
    return ("quant", x, mn, mx, g)


def grp(x):
    return ("group", x)


def nc(x):
    return ("ncgroup", x)


def look(ahead, positive, x):
    return ("look", ahead, positive, x)


def core_patterns():
    """Fixed family (quick tier): every operator kind in its characteristic interactions."""
    out = []
    # atoms and classes alone / in sequence
    for x in ATOMS + [CMIX, CNS, CNW] + ESC[3:]:
        out.append(x)
        out.append(seq(A, x))
    # one quantifier over every atom kind, in context
    for k in range(len(QUANTS)):
        out.append(seq(q(A, k), B))
        out.append(seq(q(CAB, k), A))
        out.append(q(grp(alt(A, B)), k))
        out.append(seq(q(grp(A), k), ("backref", 1)))
    for x in (DOT, CNA, ("esc", "d"), ("esc", "w")):
        for k in (0, 1, 3, 7):
            out.append(seq(q(x, k), B))
    # alternation and groups
    out += [alt(A, B), alt(seq(A, B), A), seq(grp(alt(A, seq(A, B))), grp(alt(C, seq(B, C, ("char", "d")))), grp(q(("char", "d"), 0))),
            seq(alt(A, seq()), B), grp(alt(seq(), A)), seq(grp(alt(A, B)), grp(alt(B, A))), alt(grp(A), grp(B)),
            seq(nc(alt(grp(A), grp(B))), nc(alt(grp(A), grp(B)))), grp(grp(grp(A))), seq(grp(seq(A, grp(B))), ("backref", 2), ("backref", 1))]
    # backreferences
    out += [seq(grp(A), ("backref", 1)), seq(grp(alt(A, B)), ("backref", 1)), seq(q(grp(alt(A, B)), 7), ("backref", 1)),
            seq(q(grp(A), 2), ("backref", 1), B), seq(("backref", 1), grp(A)), seq(q(nc(alt(grp(A), B)), 1), ("backref", 1)),
            seq(grp(q(A, 0)), B, ("backref", 1)), seq(grp(q(DOT, 3)), ("backref", 1)), q(nc(seq(("backref", 1), grp(A))), 0),
            seq(grp(A), grp(q(("backref", 1), 0)), B), seq(q(grp(alt(A, B)), (2, 2, True)), ("backref", 1)),
            seq(q(grp(alt(A, B)), (1, 2, True)), ("backref", 1)), seq(q(grp(alt(A, B)), (0, 2, True)), ("backref", 1)),
            seq(q(nc(alt(grp(A), grp(B))), (2, 2, True)), ("backref", 1), ("backref", 2))]
    # lookarounds
    for body in (A, CAB, seq(A, B), grp(A), alt(A, B), q(A, 0), ("esc", "d"), DOT, CNA):
        out.append(seq(look(True, True, body), DOT))
        out.append(seq(look(True, False, body), DOT))
        out.append(seq(DOT, look(False, True, body)))
        out.append(seq(DOT, look(False, False, body)))
    out += [seq(look(True, True, grp(q(A, 0))), ("backref", 1), B), seq(A, look(True, True, grp(B)), B, ("backref", 1)),
            q(nc(seq(look(True, True, A), A)), 0), seq(q(nc(seq(look(True, False, B), DOT)), 0), B),
            seq(look(False, True, grp(A)), B, ("backref", 1)), seq(A, look(False, True, seq(grp(DOT), ("backref", 1))), B) if False else seq(A, look(False, True, A), B),
            seq(look(True, True, q(grp(A), 2)), A), seq(look(True, False, seq(A, look(True, True, B))), DOT),
            seq(q(A, 0), look(False, False, seq(A, A)), B), seq(look(False, True, q(A, 0)), B),
            seq(look(False, True, seq(grp(A), grp(B))), C), seq(look(True, True, alt(grp(A), grp(B))), DOT, ("backref", 1), ("backref", 2))]
    # nested quantifiers / empty iterations
    out += [q(grp(q(A, 0)), 0), seq(q(grp(q(A, 0)), 0), B), seq(q(grp(q(A, 0)), 1), B), q(grp(q(A, 0)), 1), seq(q(nc(alt(A, seq(A, B))), 0), C),
            q(nc(q(A, 2)), 0), seq(q(grp(q(A, (0, 2, True))), (2, 2, True)), B), q(grp(alt(grp(A), B)), 1), seq(q(grp(q(A, 3)), 3), B),
            seq(q(grp(alt(A, A)), 0), B), q(grp(alt(seq(), A)), 1), q(grp(alt(A, seq())), 0), seq(q(nc(q(A, 2)), 2), B),
            seq(q(grp(q(grp(A), 2)), 0), ("backref", 2)), q(grp(seq(q(A, 2), q(B, 2))), 0), seq(q(grp(alt(q(A, 1), q(B, 1))), 0), C),
            q(nc(seq(grp(A), q(grp(B), 2))), 1), seq(q(DOT, 0), A), seq(q(DOT, 3), A), seq(q(CNA, 1), A, q(DOT, 2))]
    # anchors and boundaries
    for x in ASSERTS:
        out += [seq(x, A), seq(A, x), seq(q(DOT, 0), x), x, seq(x, x), q(nc(seq(x, A)), 1) if False else seq(x, q(A, 0)),
                alt(seq(x, A), B), seq(grp(q(A, 0)), x, B)]
    out += [seq(("assert", "start"), ("assert", "end")), seq(("assert", "start"), q(DOT, 0), ("assert", "end")),
            q(nc(alt(seq(("assert", "start"), A), seq(B, ("assert", "end")))), 1), seq(("assert", "b"), q(("esc", "w"), 1), ("assert", "b")),
            seq(("esc", "W"), ("assert", "b")), seq(("assert", "B"), DOT, ("assert", "B")), seq(q(("esc", "s"), 1), ("assert", "end"))]
    return dedupe(out)


def deep_patterns():
    """Patterns whose interesting subjects are 4-5 characters long (narrow: few paths per subject length)."""
    S, E = ("assert", "start"), ("assert", "end")
    br = ("backref", 1)
    out = [
        # backreferences inside lookarounds, reached again after backtracking with a different capture
        seq(S, grp(alt(A, seq(A, B))), nc(alt(seq(B, C), C)), look(True, False, br)),
        seq(S, grp(q(A, 4)), q(A, 3), look(True, False, br), A),
        seq(S, grp(alt(seq(A, B), A)), nc(alt(C, seq(B, C))), look(True, False, seq(br, B)), br, B, E),
        seq(S, grp(alt(A, seq(A, B))), nc(alt(seq(B, C), C)), look(True, True, br), DOT),
        seq(grp(alt(A, seq(A, B))), q(B, 2), look(False, True, seq(br, q(B, 2))), C),
        seq(grp(alt(A, seq(A, A))), q(A, 3), look(False, False, seq(br, br)), B),
        seq(S, grp(q(DOT, 4)), q(DOT, 3), look(True, False, br), DOT, E),
        # captures made inside lookarounds within quantified bodies
        q(nc(alt(seq(look(False, True, grp(A)), B), C)), 1),
        seq(q(nc(look(False, True, grp(A))), 2), B),
        q(nc(alt(seq(look(True, True, grp(A)), A), B)), 1),
        seq(q(nc(look(True, True, grp(A))), 2), A),
        q(nc(alt(seq(look(False, True, grp(A)), B), C)), (1, 2, True)),
        q(nc(alt(seq(look(True, False, grp(A)), B), seq(grp(A), A))), (2, None, True)),
        # nested optional groups under counted quantifiers
        seq(q(nc(q(grp(B), 2)), (0, 2, True)), E),
        seq(q(nc(q(grp(B), 2)), (1, 2, True)), E),
        seq(q(grp(q(grp(B), 2)), (0, 2, True)), A),
        q(nc(alt(q(grp(A), 2), B)), (0, 3, True)),
        seq(q(nc(seq(q(grp(A), 2), q(grp(B), 2))), (2, 2, True)), C),
        seq(q(nc(alt(grp(A), grp(B))), (0, 3, False)), C),
        q(grp(alt(seq(grp(A), B), seq(A, grp(C)))), 1),
    ]
    return dedupe(out)


def dedupe(xs):
    seen, out = set(), []
    for x in xs:
        k = repr(x)
        if k not in seen:
            seen.add(k)
            out.append(x)
    return out


def random_pattern(rng, depth):
    if depth == 0 or rng.random() < 0.25:
        r = rng.random()
        if r < 0.6:
            return rng.choice([A, B, C, DOT, CAB, CNA, ("esc", "d"), ("esc", "w"), ("esc", "s"), ("char", " "), ("char", "1"), ("char", "_"), ("char", "A")])
        if r < 0.8:
            return rng.choice(ASSERTS)
        return rng.choice([CMIX, CNS, CNW, ("esc", "D"), ("esc", "W"), ("esc", "S"), ("char", "\n")])
    r = rng.random()
    if r < 0.28:
        return seq(*[random_pattern(rng, depth - 1) for _ in range(rng.choice((2, 2, 3)))])
    if r < 0.42:
        return alt(*[random_pattern(rng, depth - 1) for _ in range(rng.choice((2, 2, 3)))])
    if r < 0.62:
        body = random_pattern(rng, depth - 1)
        return q(body, rng.randrange(len(QUANTS) - 1))
    if r < 0.78:
        return grp(random_pattern(rng, depth - 1))
    if r < 0.90:
        return look(rng.random() < 0.6, rng.random() < 0.6, random_pattern(rng, depth - 1))
    if r < 0.97:
        return ("backref", rng.choice((1, 1, 2)))
    return nc(random_pattern(rng, depth - 1))


def random_patterns(seed, n, depth=3):
    from ..refsem.regex_ref import count_groups
    rng = random.Random(seed)
    out = []
    while len(out) < n:
        p = seq(random_pattern(rng, depth), random_pattern(rng, depth - 1))
        g = count_groups(p)
        if max_backref(p) > g:
            continue
        out.append(p)
    return dedupe(out)


def max_backref(node):
    k = node[0]
    if k == "backref":
        return node[1]
    if k in ("group", "ncgroup"):
        return max_backref(node[1])
    if k == "look":
        return max_backref(node[3])
    if k == "quant":
        return max_backref(node[1])
    if k in ("seq", "alt"):
        return max([max_backref(n) for n in node[1]] or [0])
    return 0
