"""Expression trees over every operator kind of the engine's grammar, built from kind indices and attachment slots.

A tree with n operators is described by kinds [k0..k(n-1)] and slots [s1..s(n-1)]: operator i (i >= 1) replaces the
s_i-th leaf (left to right) of the tree built so far.  Leaves are then named a, b, c, ... from left to right.
Every tree shape with n operator nodes arises from some (kinds, slots).
"""
from microjs import ast_nodes as A

from ..refsem import syntax as S

LEAF = "leaf"


class Hole:
    pass


def _bin(op):
    def mk(l, r):
        return (A.LogicalExpression if op in ("&&", "||") else A.BinaryExpression)(op, l, r)
    return mk


KINDS = []        # (name, arity, make(children...), positions that must be references)
for _op in S.BINARY_OPS:
    KINDS.append(("bin " + _op, 2, _bin(_op), ()))
for _op in S.UNARY_OPS:
    KINDS.append(("unary " + _op, 1, (lambda o: lambda x: A.UnaryExpression(o, x))(_op), ()))
for _op in ("++", "--"):
    KINDS.append(("prefix " + _op, 1, (lambda o: lambda x: A.UpdateExpression(o, x, True))(_op), (0,)))
    KINDS.append(("postfix " + _op, 1, (lambda o: lambda x: A.UpdateExpression(o, x, False))(_op), (0,)))
for _op in S.ASSIGN_OPS:
    KINDS.append(("assign " + _op, 2, (lambda o: lambda l, r: A.AssignmentExpression(o, l, r))(_op), (0,)))
KINDS.append(("cond", 3, lambda t, c, a: A.ConditionalExpression(t, c, a), ()))
KINDS.append(("comma", 2, lambda l, r: A.SequenceExpression([l, r]), ()))
KINDS.append(("member", 1, lambda o: A.MemberExpression(o, A.Identifier("p"), False), ()))
KINDS.append(("index", 2, lambda o, i: A.MemberExpression(o, i, True), ()))
KINDS.append(("call", 2, lambda f, x: A.CallExpression(f, [x]), ()))
KINDS.append(("new", 2, lambda f, x: A.NewExpression(f, [x]), ()))
KINDS.append(("arrow", 1, lambda b: A.ArrowFunctionExpression([A.Identifier("x")], b, True), ()))
KINDS.append(("array", 2, lambda x, y: A.ArrayExpression([x, y]), ()))
KINDS.append(("object", 1, lambda v: A.ObjectExpression([A.Property(A.Identifier("k"), v)]), ()))
KINDS.append(("function", 1, lambda v: A.FunctionExpression(None, [], A.BlockStatement([A.ReturnStatement(v)])), ()))
NAMES = [k[0] for k in KINDS]

# one representative per binding class (for the deeper families)
REPRESENTATIVES = [NAMES.index(n) for n in (
    "bin ||", "bin &&", "bin |", "bin ^", "bin &", "bin ===", "bin <", "bin in", "bin <<", "bin +", "bin -", "bin *", "bin /",
    "bin **", "unary -", "unary typeof", "prefix ++", "postfix --", "assign =", "assign +=", "cond", "comma", "member",
    "index", "call", "new", "arrow")]
REPRESENTATIVES_QUICK = [NAMES.index(n) for n in (
    "bin ||", "bin &&", "bin ===", "bin <", "bin +", "bin *", "bin **", "unary -", "postfix --", "assign =",
    "cond", "comma", "member", "call", "new", "arrow")]
BINARY_KINDS = list(range(len(S.BINARY_OPS)))
LEVEL_REPRESENTATIVES = [NAMES.index(n) for n in (
    "bin ||", "bin &&", "bin |", "bin ^", "bin &", "bin ==", "bin <", "bin >>", "bin +", "bin -", "bin *", "bin **")]


def build(kinds, slots):
    """-> (tree, valid): valid is False when an assignment/update target is not a reference."""
    holes = []

    def node(k):
        name, arity, make, refs = KINDS[k]
        hs = [Hole() for _ in range(arity)]
        return [k, hs]

    root = node(kinds[0])
    tree = root

    def leaves(t, acc):
        for i, c in enumerate(t[1]):
            if isinstance(c, Hole):
                acc.append((t, i))
            else:
                leaves(c, acc)
        return acc

    for k, s in zip(kinds[1:], slots):
        ls = leaves(tree, [])
        if not (0 <= s < len(ls)):
            return None, False
        parent, i = ls[s]
        parent[1][i] = node(k)
    counter = [0]
    valid = [True]

    def realise(t):
        k, cs = t
        name, arity, make, refs = KINDS[k]
        out = []
        for i, c in enumerate(cs):
            if isinstance(c, Hole):
                out.append(A.Identifier("abcdefgh"[counter[0]]))
                counter[0] += 1
            else:
                out.append(realise(c))
            if i in refs and not isinstance(out[-1], (A.Identifier, A.MemberExpression)):
                valid[0] = False
        return make(*out)

    return realise(tree), valid[0]


def n_leaves(kinds_prefix):
    """Number of leaves after the operators in kinds_prefix have been placed (independent of the slots)."""
    n = 0
    for k in kinds_prefix:
        n += KINDS[k][1] - (1 if n else 0)
    return n
