"""Call-form programs (C08): every way of calling x every kind of function, observing this, arguments, length, name,
instanceof, the prototype link and the constructor-return rule.  A and B are symbolic integers set as globals."""

PRELUDE = """
var T = {tag: 'T'}, U = {tag: 'U'};
function tagof(x) { return x === undefined ? 'undefined' : x === null ? 'null' : (typeof x === 'object' || typeof x === 'function') ? (x.tag === undefined ? typeof x : x.tag) : typeof x + ':' + x; }
"""

KINDS = {
    "decl": "function f(a, b) { return [tagof(this), arguments.length, a, b, arguments[0], arguments[2]]; }",
    "expr": "var f = function (a, b) { return [tagof(this), arguments.length, a, b, arguments[0], arguments[2]]; };",
    "named": "var f = function inner(a, b) { return [tagof(this), arguments.length, a, b, typeof inner, inner === f]; };",
    "arrow": "var f = (a, b) => [tagof(this), a, b];",
    "arrow-in-method": "var host = {tag: 'H', mk: function () { return (a, b) => [tagof(this), a, b, arguments.length]; }}; var f = host.mk(9, 9, 9);",
    "arrow-in-ctor": "function Mk() { this.tag = 'K'; this.f = (a, b) => [tagof(this), a, b]; } var f = new Mk().f;",
    "bound": "function g(a, b) { return [tagof(this), arguments.length, a, b]; } var f = g.bind(U, A);",
    "bound-twice": "function g(a, b, c) { return [tagof(this), arguments.length, a, b, c]; } var f = g.bind(U, A).bind(T, B);",
    "nested-plain": "var f = function (a, b) { function helper() { return tagof(this); } return [tagof(this), helper(), a, b]; };",
    "method-shorthand": "var holder = {tag: 'S', f(a, b) { return [tagof(this), arguments.length, a, b]; }}; var f = holder.f;",
}

FORMS = {
    "plain": "log('r', f(A, B));",
    "method": "var o = {tag: 'O', m: f}; log('r', o.m(A, B));",
    "method-computed": "var o = {tag: 'O', m: f}; log('r', o['m'](A, B));",
    "method-paren": "var o = {tag: 'O', m: f}; log('r', (o.m)(A, B));",
    "method-comma": "var o = {tag: 'O', m: f}; log('r', (0, o.m)(A, B));",
    "method-chain": "var o = {tag: 'O', inner: {tag: 'IN', m: f}}; log('r', o.inner.m(A, B));",
    "inherited-method": "var p = {m: f}; var o = Object.create(p); o.tag = 'O'; log('r', o.m(A, B));",
    "call": "log('r', f.call(T, A, B));",
    "call-null": "log('r', f.call(null, A), f.call(undefined, A), f.call());",
    "call-primitive": "log('r', f.call(5, A));",
    "apply": "log('r', f.apply(T, [A, B]));",
    "apply-none": "log('r', f.apply(T), f.apply(T, undefined), f.apply(T, []));",
    "bind": "log('r', f.bind(T)(A, B), f.bind(T, A)(B), f.bind(T, A, B)(7));",
    "bind-props": "var bf = f.bind(T, A); log('r', typeof bf, bf.length, f.length);",
    "extra-args": "log('r', f(A, B, A + B, 4));",
    "missing-args": "log('r', f(), f(A));",
    "callback": "log('r', [A, B].map(f));",
    "callback-this": "log('r', [A].forEach(f), [A].map(f, T));",
    "getter": "var o = {tag: 'G', get v() { return f.call(this, A, B); }}; log('r', o.v, Object.create(o).v);",
    "length-name": "log('r', f.length, typeof f.name, typeof f);",
    "returned": "function give() { return f; } log('r', give()(A, B));",
    "in-array": "var fs = [f]; log('r', fs[0](A, B) [0] === 'undefined' ? 'u' : 'array-this');",
}

CTOR_PROGRAMS = {
    "new-basic": "function C(a, b) { this.a = a; this.b = b; } var c = new C(A, B); log(c.a, c.b, c instanceof C, Object.getPrototypeOf(c) === C.prototype, c.constructor === C, typeof C.prototype);",
    "new-no-args": "function C(a) { this.n = arguments.length; this.a = a; } var c = new C; log(c.n, c.a, c instanceof C);",
    "new-return-object": "function C(a) { this.a = a; return {other: a + 1}; } var c = new C(A); log(c.a, c.other, c instanceof C);",
    "new-return-primitive": "function C(a) { this.a = a; return B; } var c = new C(A); log(c.a, c instanceof C, typeof c);",
    "new-return-array": "function C(a) { this.a = a; return [a]; } var c = new C(A); log(c.length, c[0], c instanceof C, c instanceof Array);",
    "new-return-function": "function C(a) { return function () { return a; }; } var c = new C(A); log(typeof c, c instanceof C);",
    "new-return-null": "function C(a) { this.a = a; return null; } var c = new C(A); log(c.a, c instanceof C);",
    "proto-methods": "function C(a) { this.a = a; } C.prototype.get = function () { return this.a; }; C.prototype.k = B; var c = new C(A), d = new C(B); log(c.get(), d.get(), c.k, c.get === d.get, c.hasOwnProperty('get'), 'get' in c);",
    "proto-replace": "function C() {} var c1 = new C(); C.prototype = {v: A}; var c2 = new C(); log(c1.v, c2.v, c1 instanceof C, c2 instanceof C, c2.constructor === Object);",
    "inherit-chain": "function Base(a) { this.a = a; } Base.prototype.who = function () { return 'base' + this.a; }; function Derived(a, b) { Base.call(this, a); this.b = b; } "
                     "Derived.prototype = Object.create(Base.prototype); Derived.prototype.constructor = Derived; Derived.prototype.sum = function () { return this.a + this.b; }; "
                     "var d = new Derived(A, B); log(d.who(), d.sum(), d instanceof Derived, d instanceof Base, d instanceof Object, Object.getPrototypeOf(Object.getPrototypeOf(d)) === Base.prototype, d.constructor === Derived);",
    "instanceof-primitive": "function C() {} log(5 instanceof C, 'x' instanceof C, null instanceof C, undefined instanceof C, ({}) instanceof C);",
    "instanceof-bound": "function C() {} var BC = C.bind(null); var c = new C(); log(c instanceof BC, new BC() instanceof C);",
    "instanceof-non-callable": "var r; try { r = ({}) instanceof {}; } catch (e) { r = e.name; } log(r);",
    "new-non-constructor": "var r; try { new (function () { return 1; }.bind(null))(); r = 'ok'; } catch (e) { r = e.name; } var s; try { new ({})(); s = 'ok'; } catch (e2) { s = e2.name; } var t; try { new (x => x)(); t = 'ok'; } catch (e3) { t = e3.name; } log(r, s, t);",
    "new-bound": "function C(a, b) { this.a = a; this.b = b; } var BC = C.bind({tag: 'ignored'}, A); var c = new BC(B); log(c.a, c.b, c instanceof C, c.tag);",
    "ctor-this-leak": "function C() { return this; } var r = C(); log(r === undefined);",
    "method-new": "var ns = {C: function (a) { this.a = a; }}; var c = new ns.C(A); log(c.a, c instanceof ns.C);",
    "arguments-object": "function f(a, b) { return [arguments.length, arguments[0], arguments[1], arguments[2], typeof arguments]; } log(f(A), f(A, B, 3), f());",
    "arguments-closure": "function f() { var args = arguments; return function () { return [args.length, args[0], arguments.length]; }; } log(f(A, B)(1, 2, 3));",
    "arguments-arrow": "function f() { return (() => arguments.length + arguments[0])(); } log(f(A, B));",
    "fn-length-name": "function two(a, b) {} var anon = function () {}; var arrow = (x) => x; var obj = {meth: function (a, b, c) {}}; log(two.length, two.name, anon.length, arrow.length, obj.meth.length, typeof two.prototype, arrow.prototype === undefined);",
    "fn-props": "function f() { return f.count; } f.count = A; f.extra = {v: B}; log(f(), f.extra.v, 'count' in f, f.hasOwnProperty('count'), Object.keys(f).join(), delete f.count, f.count, 'count' in f);",
    "fn-props-isolated": "function mk() { return function () {}; } var f1 = mk(), f2 = mk(); f1.p = A; log(f1.p, f2.p, f1.prototype === f2.prototype);",
    "this-toplevel": "log(this === undefined, typeof this);",
    "this-in-callback-of-method": "var o = {tag: 'O', run: function () { var self = this; return [A].map(function (x) { return [tagof(this), tagof(self), x]; }); }, arrow: function () { return [A].map(x => [tagof(this), x]); }}; log(o.run(), o.arrow());",
    "accessor-this": "var p = {get me() { return tagof(this); }, set me(v) { this.got = v; }}; var o = Object.create(p); o.tag = 'O'; p.tag = 'P'; o.me = A; log(o.me, p.me, o.got, p.got, o.hasOwnProperty('got'), o.hasOwnProperty('me'));",
    "getter-own-over-inherited": "var p = {get v() { return 'getter'; }}; var o = Object.create(p); Object.defineProperty(o, 'v', {value: A, enumerable: true, configurable: true, writable: true}); log(o.v, p.v); var q = {v: B}; var r = Object.create(q); Object.defineProperty(r, 'v', {get: function () { return 'own getter'; }, configurable: true}); log(r.v, q.v);",
    "keys-agree": "var p = {inh: 1}; var o = Object.create(p); o.a = A; o.b = B; Object.defineProperty(o, 'hid', {value: 3, enumerable: false}); Object.defineProperty(o, 'acc', {get: function () { return 4; }, enumerable: true}); var fi = []; for (var k in o) { fi.push(k); } "
                  "log(Object.keys(o).sort().join(), fi.sort().join(), Object.values(o).length, Object.entries(o).length, o.hasOwnProperty('hid'), 'hid' in o, o.hid, 'inh' in o, o.hasOwnProperty('inh'));",
    "numeric-keys": "var o = {}; o[1] = A; o['1'] = B; o[1.0] = A + B; var k = Object.keys(o); log(k.length, o[1], o['1'], 1 in o, '1' in o, o.hasOwnProperty(1), delete o[1], 1 in o);",
    "delete-forms": "var o = {a: A, b: B}; var p = Object.create(o); log(delete o.a, delete o.missing, delete p.b, p.b, 'a' in o, delete o['b'], p.b);",
    "set-does-not-touch-proto": "var p = {v: A}; var o = Object.create(p); o.v = B; log(o.v, p.v, o.hasOwnProperty('v')); delete o.v; log(o.v, p.v); p.v = B + 1; log(o.v);",
    "proto-literal": "var p = {x: A}; var o = {__proto__: p, y: B}; log(o.x, o.y, Object.getPrototypeOf(o) === p, o.hasOwnProperty('__proto__'), Object.keys(o).join(), o.__proto__ === p);",
    "proto-accessor": "var p = {x: A}; var o = {}; o.__proto__ = p; log(o.x, Object.getPrototypeOf(o) === p, Object.keys(o).length); o.__proto__ = null; log(o.x, Object.getPrototypeOf(o) === null); var q = {}; q.__proto__ = 5; log(Object.getPrototypeOf(q) === Object.prototype);",
    "proto-cycle": "var a = {}, b = Object.create(a); var r; try { Object.setPrototypeOf(a, b); r = 'ok'; } catch (e) { r = e.name; } var s; try { a.__proto__ = b; s = 'ok'; } catch (e2) { s = e2.name; } log(r, s, Object.getPrototypeOf(a) === Object.prototype);",
    "create-null": "var o = Object.create(null); o.a = A; log(o.a, 'a' in o, 'toString' in o, Object.getPrototypeOf(o) === null, Object.keys(o).join());",
    "create-errors": "var r = []; [5, 'x', undefined, true].forEach(function (v) { try { Object.create(v); r.push('ok'); } catch (e) { r.push(e.name); } }); try { Object.setPrototypeOf({}, 5); r.push('ok'); } catch (e) { r.push(e.name); } log(r.join());",
    "define-errors": "var r = []; try { Object.defineProperty(5, 'a', {value: 1}); r.push('ok'); } catch (e) { r.push(e.name); } try { Object.defineProperty({}, 'a', 5); r.push('ok'); } catch (e) { r.push(e.name); } try { Object.defineProperty({}, 'a', {get: 5}); r.push('ok'); } catch (e) { r.push(e.name); } try { Object.defineProperty({}, 'a', {get: function () {}, value: 1}); r.push('ok'); } catch (e) { r.push(e.name); } log(r.join());",
    "array-as-object": "var a = [A, B]; a.extra = 7; log(Object.keys(a).join(), 'extra' in a, 0 in a, 2 in a, 'length' in a, a.hasOwnProperty('length'), a.hasOwnProperty(1), a.hasOwnProperty(2), Object.values(a).length, Object.entries(a)[1][0]); var fi = []; for (var k in a) { fi.push(k); } log(fi.join());",
    "array-proto": "Array.prototype.first = function () { return this[0]; }; var a = [A, B]; log(a.first(), [].first(), 'first' in a, a.hasOwnProperty('first'), Object.keys(a).join(), Object.getPrototypeOf(a) === Array.prototype, a instanceof Array, a instanceof Object); delete Array.prototype.first; log(typeof a.first);",
    "object-proto": "Object.prototype.everywhere = A; var o = {}, a = [], f = function () {}; function C() {} log(o.everywhere, a.everywhere, f.everywhere, new C().everywhere, 'everywhere' in o, o.hasOwnProperty('everywhere'), Object.keys(o).length); delete Object.prototype.everywhere; log(o.everywhere);",
    "function-proto-chain": "function C() {} log(Object.getPrototypeOf(C) === Function.prototype, Object.getPrototypeOf(C.prototype) === Object.prototype, C.prototype.constructor === C, Object.keys(C.prototype).length, C.hasOwnProperty('prototype'), typeof C.call, typeof C.bind);",
    "toString-valueOf-own": "var o = {toString: function () { return 's' + A; }, valueOf: function () { return B; }}; log('' + o, o + 1, o.hasOwnProperty('toString'), ({}).hasOwnProperty('toString'));",
}


def call_programs():
    out = []
    for kn, ksrc in KINDS.items():
        for fn, fsrc in FORMS.items():
            out.append(("call.%s.%s" % (kn, fn), PRELUDE + ksrc + "\n" + fsrc))
    for name, src in CTOR_PROGRAMS.items():
        out.append(("obj.%s" % name, PRELUDE + src.replace("log(", "log('r', ")))
    return out
