"""Source corpus for the front-end properties: hand-written snippets covering every syntactic form the engine
parses (each evaluates standalone to a value), the repository's own .js test files, and the generated skeleton
programs of C05/C07."""
import glob
import os

SNIPPETS = [
    "var a = 1, b = 2; a + b * 3 - (a - b) / 2;",
    "var s = 0; for (var i = 0; i < 5; i++) { if (i % 2) continue; s += i; } s;",
    "var o = {a: 1, 'b c': 2, 3: 4, get g() { return this.a + 1; }, set g(v) { this.a = v; }, m(x) { return x * 2; }, [1 + 1]: 5}; o.g = 7; [o.a, o.g, o.m(4), o['b c'], o[3], o[2]].join();",
    "function f(x, y) { return x === undefined ? -1 : y || x; } [f(), f(1), f(1, 2)].join('|');",
    "var r = /a[/]b+/gi; r.test('xA/BBx') + ':' + 'a/b'.replace(/\\//, '-') + ':' + r.flags;",
    "var t = 0; outer: for (var i = 0; i < 3; i++) { for (var j = 0; j < 3; j++) { if (j == 2) continue outer; if (i == 2) break outer; t += 10 * i + j; } } t;",
    "var x = 5; var y = x++ + ++x - x-- - --x; [x, y].join();",
    "var n = 0; do { n += 2; } while (n < 7); n;",
    "var k = []; for (var p in {a: 1, b: 2}) k.push(p); for (var v of [3, 4]) k.push(v); k.join('');",
    "function T() { this.v = 1; } T.prototype.inc = function () { return ++this.v; }; var t = new T(); t.inc(); new T().inc() + t.v;",
    "var r; try { throw new Error('boom'); } catch (e) { r = e.message; } finally { r += '!'; } r;",
    "var g = (a, b) => a * b, h = x => x + 1, z = () => ({k: 1}); g(2, 3) + h(4) + z().k;",
    "var w = 0; switch (3) { case 1: w = 1; break; case 3: w = 3; case 4: w += 4; break; default: w = -1; } w;",
    "typeof void 0 + typeof null + typeof function () {} + (delete {}.x) + !0 + ~1 + -'2' + +'3';",
    "var q = 1 < 2 ? 'a' : 3 > 4 ? 'b' : 'c', u = (1, 2, 3); q + u;",
    "var a = [1, [2, [3, [4]]]], b = [[1, 2][1] + 1, [3].length, [[5]][0][0]]; a[1][1][1][0] + b.join('');",
    "var m = 7; m += 2; m -= 1; m *= 3; m /= 2; m %= 5; m <<= 2; m >>= 1; m >>>= 0; m &= 7; m |= 8; m ^= 3; m;",
    "'a\\tb\\n\\x41\\u0042\\u{43}\\'\\\"\\\\'.length + \"q'\".length + 'it\\'s'.length;",
    "0x1f + 0o17 + 0b101 + 1e2 + 1.5e-1 + .5 + 5. + 0.25;",
    "var f = function fact(n) { return n <= 1 ? 1 : n * fact(n - 1); }; f(5) + (function () { return 2; })();",
    "var c = 0; while (true) { if (++c > 3) break; } label: { c += 10; break label; c += 100; } c;",
    "var o = {if: 1, for: 2, new: 3, typeof: 4}; o.if + o.for + o.new + o.typeof;",
    "2 ** 3 ** 2 + (-2) ** 2 + 10 % 4 * 2 - 8 / 4 / 2;",
    "1 + 2 << 3 > 4 == true & 1 ^ 2 | 4 && 5 || 6;",
    "var s = ''; for (var i = 0, j = 9; i < j; i += 3, j -= 3) s += i + '' + j; s;",
    "var o = {a: {b: {c: function () { return [10, 20]; }}}}; o.a.b.c()[1] + o['a']['b'].c().length;",
    "'x' in {x: 1} && [] instanceof Array && !('y' in {x: 1});",
    "if (0) ; else if (1) { var e = 'elif'; } else { e = 'else'; } e;",
    "var i = 3, r = []; for (;;) { if (!i--) break; r.push(i); } r.join();",
    "var a = 1; a = a / 2 / 1; var b = a /2/ 1; var c = [a, b] /* not a regex */ ; c.join('/');",
    "function k() { return; } function u() { return (1, 2); } String(k()) + u();",
    "var n = new Number(5), ar = new Array(3), e = new Error('m'); typeof n + ar.length + e.message;",
    "var t = this === undefined ? 'u' : typeof this; t;",
    "var x = 3; x = x > 2 ? x < 5 ? 'mid' : 'high' : 'low'; x;",
    "var s = 0; [1, 2, 3].forEach(function (v, i) { s += v * i; }); s + [1, 2, 3].map(v => v * 2).filter(v => v > 2).reduce((a, b) => a + b, 0);",
    "var o = {}; o.a = o.b = 4; o['c' + 1] = o.a++ + --o.b; [o.a, o.b, o.c1].join();",
    "try { null.x; } catch (e) { var nm = e.name; } try { try { throw 1; } finally { nm += 'F'; } } catch (e2) { nm += e2; } nm;",
]


def repo_files(max_bytes=None):
    out = []
    for f in sorted(glob.glob("/repo/tests/**/*.js", recursive=True)):
        try:
            src = open(f).read()
        except OSError:
            continue
        if max_bytes is None or len(src) <= max_bytes:
            out.append((os.path.relpath(f, "/repo/tests"), src))
    return out


def skeleton_programs(limit=None):
    from . import stmts, exc
    out = []
    for i, (name, src, *_rest) in enumerate(_named(stmts.programs())):
        out.append(("stmts." + name, src))
    for i, (name, src, *_rest) in enumerate(_named(exc.programs())):
        out.append(("exc." + name, src))
    return out[:limit] if limit else out


def _named(items):
    for i, it in enumerate(items):
        if isinstance(it, str):
            yield (str(i), it)
        elif isinstance(it, (tuple, list)) and len(it) >= 2 and isinstance(it[0], str) and isinstance(it[1], str):
            yield (it[0], it[1])
        elif isinstance(it, dict) and "src" in it:
            yield (str(it.get("name", i)), it["src"])
        else:
            yield (str(i), str(it[0] if isinstance(it, (tuple, list)) else it))
