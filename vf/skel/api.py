"""The built-in API surface of the engine, regenerated from the current source at run time (C04, C03).

Candidate member names are all identifier-like string literals of microjs/vm.py, context.py and values.py; a name is a
member of a receiver kind when `typeof R[name]` is 'function' on a fresh context.  Global callables and the callable
properties of global namespace objects are found by walking Context()._globals."""
import ast
import re

RECEIVERS = [
    ("string", "'abc'"), ("empty-string", "''"), ("int", "(5)"), ("float", "(5.5)"), ("nan", "(NaN)"), ("bool", "(true)"),
    ("array", "[3, 1, 2]"), ("empty-array", "[]"), ("object", "({a: 1, b: 'x'})"), ("function", "(function (a) { return a; })"),
    ("arrow", "(x => x)"), ("bound", "(function (a) { return this; }).bind(null)"), ("regex", "/a(b)?/g"),
    ("uint8", "new Uint8Array(4)"), ("float64", "new Float64Array(2)"), ("int32", "new Int32Array([1, 2, 3])"),
    ("buffer", "new ArrayBuffer(8)"), ("error", "new Error('m')"), ("arguments", "(function () { return arguments; })(1, 2)"),
    ("native", "Math.max"), ("native-method", "[].push"), ("object-null-proto", "Object.create(null)"),
]

ARGS = ["undefined", "null", "NaN", "Infinity", "-Infinity", "-0", "0", "1", "-1", "2", "2147483648", "4294967296", "9007199254740993",
        "1e21", "0.5", "-1.5", "'5'", "'x'", "''", "true", "({})", "[]", "[1, 2]", "(function () {})",
        "({valueOf: function () { return 2; }})", "({toString: function () { throw new Error('ts'); }})", "/r/g", "'\\ud800'", "100000",
        "new ArrayBuffer(16)", "new Uint8Array(4)", "8"]
ARGS_SMALL = ["undefined", "NaN", "-1", "1e21", "'x'", "({})", "2", "8"]


def candidate_names():
    import microjs.vm as V
    import microjs.context as C
    import microjs.values as L
    names = set()
    for mod in (V, C, L):
        tree = ast.parse(open(mod.__file__).read())
        for node in ast.walk(tree):
            if isinstance(node, ast.Constant) and isinstance(node.value, str) and re.fullmatch(r"[A-Za-z_$][A-Za-z0-9_$]{0,30}", node.value):
                names.add(node.value)
    return sorted(names)


_SURFACE = {}


def surface():
    """-> {"globals": [expr...], "methods": {receiver kind: [name...]}}"""
    if _SURFACE:
        return _SURFACE
    from microjs import Context
    import microjs.values as V
    ctx = Context()
    callables = []
    for name, v in sorted(ctx._globals.items()):
        if not re.fullmatch(r"[A-Za-z_$][A-Za-z0-9_$]*", name):
            continue
        if callable(v) or isinstance(v, V.JSFunction):
            callables.append(name)
        if isinstance(v, V.JSObject):
            for k, pv in list(v._properties.items()):
                if (callable(pv) or isinstance(pv, V.JSFunction)) and re.fullmatch(r"[A-Za-z_$][A-Za-z0-9_$]*", k):
                    callables.append("%s.%s" % (name, k))
    names = candidate_names()
    methods = {}
    for kind, expr in RECEIVERS:
        found = []
        c = Context()
        c.eval("var R = %s;" % expr)
        for n in names:
            try:
                if c.eval("typeof R.%s" % n if not _reserved(n) else "typeof R['%s']" % n) == "function":
                    found.append(n)
            except Exception:  # noqa: BLE001
                pass
        methods[kind] = found
    _SURFACE.update({"globals": callables, "methods": methods, "candidates": names})
    return _SURFACE


def _reserved(n):
    return n in ("if", "else", "for", "while", "do", "switch", "case", "default", "break", "continue", "return", "throw", "try", "catch",
                 "finally", "function", "var", "new", "delete", "typeof", "in", "of", "instanceof", "this", "true", "false", "null", "void")
