"""(3.12, no CrossHair) re-run every path witness of a check on the real build.

usage: /venv/bin/python -m vf.rerun <PROP> <witness-dir> <jobs>; prints one JSON line.
"""
import json
import os
import signal
import sys
from multiprocessing import Pool


def _alarm(signum, frame):
    from .compat import HangAbort
    raise HangAbort()


def one(task):
    prop, path = task
    sys.path.insert(0, "/repo/src")
    from .harness_api import load
    from .worker import concrete_run, same_verdict
    from .codec import dec
    from .compat import HangAbort
    hs, _ = load(prop)
    hid = os.path.basename(path)[:-6]
    h = {x.id: x for x in hs}[hid]
    ok = bad = 0
    samples = []
    signal.signal(signal.SIGALRM, _alarm)
    with open(path) as f:
        for line in f:
            rec = json.loads(line)
            signal.alarm(60)
            try:
                cv, cd = concrete_run(h.fn, dec(rec["args"]))
            except HangAbort:
                cv, cd = "hang", ""
            finally:
                signal.alarm(0)
            if same_verdict(rec, cv, cd):
                ok += 1
            else:
                bad += 1
                if len(samples) < 3:
                    samples.append({"harness": hid, "args": rec["args"],
                                    "symbolic": [rec["verdict"], rec["detail"]], "py312": [cv, cd]})
    return ok, bad, samples


def main(prop, wdir, jobs):
    files = sorted(os.path.join(wdir, f) for f in os.listdir(wdir) if f.endswith(".jsonl"))
    ok = bad = 0
    samples = []
    if files:
        with Pool(min(int(jobs), len(files))) as pool:
            for o, b, s in pool.imap_unordered(one, [(prop, f) for f in files]):
                ok += o
                bad += b
                samples.extend(s)
    print(json.dumps({"validated": ok, "mismatch": bad, "samples": samples[:5]}))


if __name__ == "__main__":
    main(*sys.argv[1:4])
