"""Running scripts on the real engine from inside a harness."""
from .compat import NoTracing, BoundReached, StepBudget  # noqa: F401

_CACHE = {}


def compile_js(src):
    """Parse + compile concrete source outside the tracer (it is not the object of the harness)."""
    with NoTracing():
        c = _CACHE.get(src)
        if c is None:
            from microjs.parser import Parser
            from microjs.compiler import Compiler
            c = Compiler().compile(Parser(src).parse())
            if len(_CACHE) < 5000:
                _CACHE[src] = c
        return c


def new_context(**kw):
    with NoTracing():
        from microjs import Context
        return Context(**kw)


def run_compiled(ctx, compiled, max_steps=20000):
    """What Context.eval does after compiling, with the VM traced and a step bound installed."""
    from microjs.vm import VM
    vm = VM(memory_limit=ctx.memory_limit, time_limit=ctx.time_limit)
    vm.globals = ctx._globals
    ctx._current_vm = vm
    ctx._last_vm = vm            # harness-side handle (monitors read the final stack depths)
    steps = [0]
    orig = vm._check_limits

    def counted():
        steps[0] += 1
        if steps[0] > max_steps:
            raise StepBudget()
        orig()
    vm._check_limits = counted
    try:
        return vm.run(compiled)
    finally:
        ctx._current_vm = None


def eval_js(ctx, src, max_steps=20000):
    """Engine-level result (not converted to Python) of evaluating concrete source `src`."""
    return run_compiled(ctx, compile_js(src), max_steps)


def eval_concrete(src, globals_=None, **kw):
    """Everything concrete on this path: run the public Context.eval outside the tracer."""
    with NoTracing():
        from microjs import Context
        ctx = Context(**kw)
        for k, v in (globals_ or {}).items():
            ctx._globals[k] = v
        return eval_js(ctx, src)
