"""JSON codec for realised harness arguments (floats exactly, any code point, big ints)."""
import math


def enc(v):
    if v is None or isinstance(v, bool):
        return v
    if isinstance(v, int):
        return {"$i": str(int(v))} if abs(v) > 2 ** 53 else int(v)
    if isinstance(v, float):
        if math.isnan(v):
            return {"$f": "nan"}
        if math.isinf(v):
            return {"$f": "inf" if v > 0 else "-inf"}
        return {"$f": float(v).hex()}
    if isinstance(v, str):
        s = str(v)
        if all(0x20 <= ord(c) < 0x7F for c in s):
            return s
        return {"$s": [ord(c) for c in s]}
    if isinstance(v, (list, tuple)):
        return [enc(x) for x in v]
    if isinstance(v, dict):
        return {"$d": [[enc(k), enc(x)] for k, x in v.items()]}
    return {"$r": repr(v)}


def dec(v):
    if isinstance(v, list):
        return [dec(x) for x in v]
    if isinstance(v, dict):
        if "$i" in v:
            return int(v["$i"])
        if "$f" in v:
            t = v["$f"]
            if t in ("nan", "inf", "-inf"):
                return float(t)
            return float.fromhex(t)
        if "$s" in v:
            return "".join(chr(c) for c in v["$s"])
        if "$d" in v:
            return {dec(k): dec(x) for k, x in v["$d"]}
        if "$r" in v:
            return v["$r"]
    return v


def show(v):
    """Human-readable rendering used in evidence samples and messages."""
    if isinstance(v, float):
        return repr(v)
    if isinstance(v, str):
        return ascii(v)
    if isinstance(v, (list, tuple)):
        return "[" + ", ".join(show(x) for x in v) + "]"
    return repr(v)
