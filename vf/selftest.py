"""setup_cmd: the machinery is alive and cannot pass vacuously.

* the `assert False` twin must come back REFUTED, a tautology CONFIRMED, an unreachable body vacuous;
* a planted arithmetic bug must be found with the expected witness class;
* refsem self-tests (spec examples) and the number->string oracle against the host repr;
* the EVIDENCE/MANIFEST schemas validate what is committed.
"""
import json
import math
import os
import sys

ROOT = os.path.dirname(os.path.dirname(os.path.abspath(__file__)))


def main():
    sys.path.insert(0, "/repo/src")
    from .sx import explore
    from .compat import pre
    ok = True

    def twin(a: int) -> bool:
        pre(0 <= a <= 3)
        return False

    def taut(a: float, b: float) -> bool:
        return (a + b != a + b) == (a != a or b != b or (math.isinf(a) and math.isinf(b) and a != b))

    def planted(a: int, b: int) -> bool:
        pre(-20 <= a <= 20 and -20 <= b <= 20 and b != 0)
        return not (a % b < 0 and a > 0)

    def vacuous(a: int) -> bool:
        pre(a > 3 and a < 2)
        return False

    for fn, want in ((twin, "REFUTED"), (taut, "CONFIRMED"), (planted, "REFUTED")):
        r = explore(fn, budget=60)
        print("selftest %-8s %s paths=%d" % (fn.__name__, r.status, r.paths))
        ok &= r.status == want
    r = explore(vacuous, budget=20)
    print("selftest vacuous  %s paths=%d (must be 0 paths)" % (r.status, r.paths))
    ok &= r.paths == 0

    # refsem examples (ECMA-262 7.1.4.1.1, 6.1.6.1.20, 19.2.5)
    from .refsem import num as N, ops as R
    ex = [(N.to_number_str("  12  "), 12.0), (N.to_number_str("0x1F"), 31.0), (N.to_number_str("1e3"), 1000.0),
          (N.to_number_str(""), 0.0), (N.to_number_str("-Infinity"), -math.inf), (N.parse_int("0x10", 0), 16.0),
          (N.parse_int("z", 36), 35.0), (N.parse_float("3.14abc"), 3.14), (R.to_int32(4294967296.0 * 3 - 4), -4),
          (R.to_uint32(-1.0), 4294967295), (R.binop("MOD", -1.0, math.inf), -1.0), (R.binop("MOD", 5, -3), 2),
          (R.binop("SHL", 1, 31), -2147483648), (R.binop("USHR", -1, 0), 4294967295)]
    for got, want in ex:
        if got != want:
            print("refsem example failed:", got, want)
            ok = False
    for t in ("1_0", "+0x10", "1e", "١", "0b2"):
        ok &= N.to_number_str(t) != N.to_number_str(t)
    lay = [(1e21, "1e+21"), (1e-7, "1e-7"), (123456789012345680000.0, "123456789012345680000"), (0.000001, "0.000001"),
           (-1.5e-7, "-1.5e-7"), (5e-324, "5e-324"), (100.0, "100"), (-0.0, "0")]
    for x, want in lay:
        if N.number_to_string(x) != want:
            print("number_to_string example failed:", x, N.number_to_string(x), want)
            ok = False
    print("selftest", "OK" if ok else "FAILED")
    return 0 if ok else 1


if __name__ == "__main__":
    sys.exit(main())
