"""Conversions between engine values and refsem values; the single definition of "same value"."""
import math

from .compat import NoTracing
from .refsem.num import UNDEF, NULL, Unspecified, is_concrete
from .refsem.ops import is_neg


def engine():
    import microjs.values as V
    return V


def to_engine(v):
    V = engine()
    if v is UNDEF:
        return V.UNDEFINED
    if v is NULL:
        return V.NULL
    return v


def to_ref(v):
    """Engine primitive -> refsem primitive (numbers become doubles)."""
    V = engine()
    if v is V.UNDEFINED:
        return UNDEF
    if v is V.NULL:
        return NULL
    return v


def _same_term(a, b):
    """Both symbolic and structurally the same solver term (then equal in every model)."""
    with NoTracing():
        va, vb = getattr(a, "var", None), getattr(b, "var", None)
        if va is None or vb is None or type(a) is not type(b):
            return False
        try:
            return bool(va.eq(vb))
        except Exception:  # noqa: BLE001
            return False


def same_number(got, want):
    """Engine number `got` (int or float) denotes exactly the double `want`."""
    if isinstance(got, bool) or not isinstance(got, (int, float)):
        return False
    if _same_term(got, want):
        return True
    if isinstance(want, int):
        # the ECMAScript result is the double with exactly the integer value `want`
        if isinstance(got, int):
            return got == want
        if not (is_concrete(got) or is_concrete(want)):
            raise Unspecified("symbolic double against symbolic exact integer")
        if want == 0:
            return got == 0 and not is_neg(got)
        return got == want
    if want != want:
        return isinstance(got, float) and got != got
    if isinstance(got, int):
        # an int result must be the exact value of the double (hence representable) and is +0 for 0
        if math.isinf(want) or want != math.trunc(want):
            return False
        if want == 0 and is_neg(want):
            return False
        return got == int(want)
    if got != got:
        return False
    if want == 0:
        return got == 0 and is_neg(got) == is_neg(want)
    return got == want


def same(got, want):
    """Engine value `got` equals refsem primitive `want`: same type, value, sign of zero, NaN-ness."""
    V = engine()
    if want is UNDEF:
        return got is V.UNDEFINED
    if want is NULL:
        return got is V.NULL
    if isinstance(want, bool):
        return isinstance(got, bool) and got == want
    if isinstance(want, (int, float)):
        return same_number(got, want)
    if isinstance(want, str):
        return isinstance(got, str) and got == want
    return False


def show(v):
    try:
        if isinstance(v, float):
            return repr(float(v))
        return repr(v)
    except Exception:  # noqa: BLE001
        return "<?>"
