"""Run one program on the real engine and on the definitional interpreter with the same (symbolic)
global data, and compare the observable behaviour: log, completion value, uncaught error."""
from .compat import NoTracing, cover, StepBudget
from .refsem import interp as I
from .refsem.num import UNDEF, NULL, Unspecified
from . import domains as D

_AST = {}


def parse_js(src):
    with NoTracing():
        a = _AST.get(src)
        if a is None:
            from microjs.parser import Parser
            a = Parser(src).parse()
            if len(_AST) < 5000:
                _AST[src] = a
        return a


def engine_snapshot(v, depth=0):
    """Engine value -> comparable snapshot (primitives as refsem values)."""
    import microjs.values as V
    if isinstance(v, V.JSArray):
        if depth > 3:
            return ("array",)
        return ("array",) + tuple(engine_snapshot(e, depth + 1) for e in v._elements)
    if isinstance(v, V.JSFunction) or (isinstance(v, V.JSObject) and hasattr(v, "_call_fn")):
        return ("function",)
    if isinstance(v, V.JSObject):
        return ("object",)
    if callable(v):
        return ("function",)
    return v


def snap_equal(e, r):
    """engine snapshot vs interpreter snapshot"""
    if isinstance(r, tuple):
        if not isinstance(e, tuple) or len(e) != len(r) or e[0] != r[0]:
            return False
        for a, b in zip(e[1:], r[1:]):
            if not snap_equal(a, b):
                return False
        return True
    if isinstance(e, tuple):
        return False
    return D.same(e, r)


def show_snap(x):
    if isinstance(x, tuple):
        return "(" + ", ".join(show_snap(y) for y in x) + ")"
    return D.show(x)


def run_engine(src, data, max_steps=6000, probe=None, ctx_kw=None):
    """-> (log, outcome) with outcome = ('value', v) | ('throw', message) | ('host', repr)"""
    from .jsrun import compile_js, new_context, run_compiled
    from microjs.errors import JSError
    compiled = compile_js(src)
    ctx = new_context(**(ctx_kw or {}))
    log = []

    def log_fn(*args):
        log.append(tuple(engine_snapshot(a) for a in args))

    def pr(*args):
        if probe is not None:
            probe(ctx)
    ctx._globals["log"] = log_fn
    ctx._globals["pr"] = pr
    for k, v in data.items():
        ctx._globals[k] = v
    try:
        v = run_compiled(ctx, compiled, max_steps=max_steps)
        outcome = ("value", engine_snapshot(v))
    except JSError as e:
        outcome = ("throw", type(e).__name__, e.message)
    return log, outcome, ctx


def run_ref(src, data, max_steps=20000):
    it = I.Interp(max_steps=max_steps)
    it.globals["pr"] = it.host("pr", lambda this, args: UNDEF)
    for k, v in data.items():
        it.globals[k] = v
    prog = parse_js(src)
    try:
        v = it.run(prog)
        outcome = ("value", it.snapshot(v))
    except I.ThrowEx as t:
        outcome = ("throw", t.value, it)
    return it.log, outcome


def compare(src, data, max_steps=6000):
    """True, or a description of the first difference.  Raises Unspecified/Unsupported upward."""
    try:
        rlog, rout = run_ref(src, data)
    except (I.Unsupported, Unspecified):
        cover("unjudged-by-oracle")
        return True
    except I.StepLimit:
        cover("unjudged-by-oracle")
        return True
    elog, eout, _ctx = run_engine(src, data, max_steps=max_steps)
    cover("judged")
    n = min(len(elog), len(rlog))
    for i in range(n):
        if not snap_equal(elog[i], rlog[i]):
            return "log entry %d: engine %s, ECMAScript %s" % (i, show_snap(elog[i]), show_snap(rlog[i]))
    if len(elog) != len(rlog):
        extra = elog[n] if len(elog) > n else rlog[n]
        return "log length: engine %d entries, ECMAScript %d (first extra: %s)" % (len(elog), len(rlog), show_snap(extra))
    if rout[0] == "value":
        if eout[0] != "value":
            return "engine raised %s(%s), ECMAScript completes with %s" % (eout[1], eout[2], show_snap(rout[1]))
        if not snap_equal(eout[1], rout[1]):
            return "completion value: engine %s, ECMAScript %s" % (show_snap(eout[1]), show_snap(rout[1]))
        vm = _ctx._last_vm
        if len(vm.stack) != 0 or len(vm.exception_handlers) != 0 or len(vm.call_stack) != 0:
            # M-depth at exit: nothing may be left behind by any exit path taken on the way
            return "after the program the interpreter still holds %d operands, %d exception handlers, %d frames" % (
                len(vm.stack), len(vm.exception_handlers), len(vm.call_stack))
        return True
    # reference throws
    if eout[0] != "throw":
        return "engine completes with %s, ECMAScript throws" % (show_snap(eout[1]),)
    cover("uncaught-throw")
    return True
