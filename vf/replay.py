"""Re-run one replay file (counterexample / hang witness) on the build that imports as `microjs`.

usage: <python> -m vf.replay <replay.json> [--quiet]      exit 1 = still fails, 0 = passes now
"""
import json
import signal
import sys


def _alarm(signum, frame):
    from .compat import HangAbort
    raise HangAbort()


def main(argv):
    path = argv[0]
    quiet = "--quiet" in argv
    sys.path.insert(0, "/repo/src")
    with open(path) as f:
        body = json.load(f)
    from .harness_api import load
    from .worker import concrete_run
    from .codec import dec, show
    from .compat import HangAbort
    hs, _ = load(body["property"])
    h = {x.id: x for x in hs}[body["harness"]]
    args = dec(body["args"])
    signal.signal(signal.SIGALRM, _alarm)
    signal.alarm(50)
    try:
        v, d = concrete_run(h.fn, args)
    except HangAbort:
        v, d = "hang", "no termination within 50 s"
    finally:
        signal.alarm(0)
    if not quiet:
        print("harness=%s inputs=%s -> %s %s" % (h.id, show(args), v, d))
        if body.get("public_api"):
            print("public API reproduction:", json.dumps(body["public_api"]))
    if v in ("fail", "exc", "hang"):
        print("VIOLATION property=%s replay=%s" % (body["property"], path))
        return 1
    return 0


if __name__ == "__main__":
    sys.exit(main(sys.argv[1:]))
