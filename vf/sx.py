"""Exploration loop over CrossHair's state space (DESIGN 2.1).

explore(fn) runs `fn` on fresh symbolic parameters once per feasible path, asking z3 which
branches are feasible, until the path tree is exhausted or the budget is used up.  Unlike
`crosshair check` it does not stop at the first failing path and it installs no contract
enforcement (which slows the traced JS VM by two orders of magnitude).

Verdict:
  CONFIRMED      path tree exhausted, every path returned True, no path abandoned
  REFUTED        at least one path returned a failure / raised (all such paths are kept)
  NOT_EXHAUSTED  budget used up, or a path was abandoned (solver unknown, per-path timeout,
                 unsupported operation); nothing failed on what was explored
  HANG           a path looped on concrete data until the watchdog fired
"""
import inspect
import signal
import time
import traceback
from dataclasses import dataclass, field
from time import process_time

from crosshair.condition_parser import condition_parser
from crosshair.core import ExceptionFilter, Patched, deep_realize, gen_args, realize
from crosshair.copyext import CopyMode, deepcopyext
from crosshair.options import AnalysisKind
from crosshair.statespace import (
    CallAnalysis,
    RootNode,
    StateSpace,
    StateSpaceContext,
    VerificationStatus,
)
import crosshair.statespace as _ss
from crosshair.tracers import COMPOSITE_TRACER, NoTracing, ResumedTracing
from crosshair.util import IgnoreAttempt, UnexploredPath, NotDeterministic
import crosshair.core_and_libs  # noqa: F401  (registers the library models)
import crosshair.libimpl.builtinslib as _bl

# Python floats are IEEE-754 doubles.  CrossHair's default picks a real-number model for 98 % of
# the paths; every harness here is about doubles, so the precise FP64 model is the only one used.
_bl._PYTYPE_TO_WRAPPER_TYPE[float] = ((_bl.PreciseIeeeSymbolicFloat, 1.0),)

# CrossHair's int() patch realises a symbolic float although PreciseIeeeSymbolicFloat.__int__ has an
# exact SMT encoding (ToInt(fpToReal(roundToIntegral(RTZ, x)))); route int(<symbolic double>) to it.
import crosshair.core as _core
_orig_int_patch = _core._PATCH_REGISTRATIONS[int]


def _int_keeping_doubles_symbolic(val=0, *a, **kw):
    with NoTracing():
        sym_double = isinstance(val, _bl.PreciseIeeeSymbolicFloat) and not a and not kw
        if not sym_double and not isinstance(val, _core.CrossHairValue) \
                and not any(isinstance(x, _core.CrossHairValue) for x in a):
            return int(val, *a, **kw)          # fully concrete: the real int()
    if sym_double:
        return _double_to_int(val)
    return _orig_int_patch(val, *a, **kw)


def _double_to_int(x):
    """int(x) for a symbolic double, exactly as CPython: truncate; NaN / infinities raise.
    (PreciseIeeeSymbolicFloat.__int__ itself calls the C-level math.isfinite, which realises.)"""
    import z3
    with NoTracing():
        is_nan = _bl.SymbolicBool(z3.fpIsNaN(x.var))
        is_inf = _bl.SymbolicBool(z3.fpIsInf(x.var))
    if is_nan:
        raise ValueError("cannot convert float NaN to integer")
    if is_inf:
        raise OverflowError("cannot convert float infinity to integer")
    with NoTracing():
        return _bl.SymbolicInt(z3.ToInt(z3.fpToReal(z3.fpRoundToIntegral(z3.RTZ(), x.var))))


_core._PATCH_REGISTRATIONS[int] = _int_keeping_doubles_symbolic

from . import compat
from .compat import BoundReached, HangAbort, KnownRegion, StepBudget
from .codec import enc

# ---- bitwise OR of disjoint bit fields on symbolic integers -----------------------------------------
# CrossHair realises both operands of `|`.  The engine's decoders assemble fields with
# `low | (high << k)`: when 0 <= low < 2**k and the other operand is a non-negative multiple of 2**k the
# two operands share no bit and a | b == a + b exactly, which stays in linear integer arithmetic.  Any
# other shape keeps CrossHair's (realising) behaviour.
import operator as _op
from numbers import Integral as _Integral


def _or_of_disjoint_fields(op, a, b):
    import z3
    with NoTracing():
        SI = _bl.SymbolicInt
        if isinstance(a, _bl.SymbolicBool) or isinstance(b, _bl.SymbolicBool) \
                or not (isinstance(a, SI) or isinstance(b, SI)):
            return op(_core.realize(a), _core.realize(b))
        space = _ss.context_statespace()
        av = a.var if isinstance(a, SI) else z3.IntVal(int(a))
        bv = b.var if isinstance(b, SI) else z3.IntVal(int(b))
        for k in (8, 16):
            m = 2 ** k
            for lo, hi in ((av, bv), (bv, av)):
                if space.smt_fork(z3.And(lo >= 0, lo < m, hi >= 0, hi % m == 0), probability_true=0.9):
                    return SI(lo + hi)
        return op(_core.realize(a), _core.realize(b))


_bl._BIN_OPS_SEARCH_ORDER.append((_op.or_, _Integral, _Integral, _or_of_disjoint_fields))
_bl._BIN_OPS.clear()


# ---- math.fmod: contract stub -------------------------------------------------------------------
# fmod has no SMT counterpart (fp.rem is the IEEE remainder, not the truncating one) and CrossHair
# realises its arguments.  Under symbolic execution it is replaced by its contract: for finite a and
# finite non-zero b the result is *some* double r with |r| < |b|, |r| <= |a|, the sign of a, and r == a
# when |a| < |b|.  Everything a caller does with the result is then explored for every such r (an
# over-approximation that contains the real value); the digits of r are not modelled.
import math as _math


def _fmod_contract(a, b):
    import z3
    with NoTracing():
        sym = isinstance(a, _core.CrossHairValue) or isinstance(b, _core.CrossHairValue)
        if not sym:
            return _math.fmod(a, b)
    a = float(a)
    b = float(b)
    if a != a or b != b:
        return float("nan")
    if _math.isinf(a) or b == 0:
        raise ValueError("math domain error")
    if _math.isinf(b):
        return a
    with NoTracing():
        space = _ss.context_statespace()
        F = _bl.PreciseIeeeSymbolicFloat
        av = a.var if isinstance(a, F) else z3.FPVal(a, z3.Float64())
        bv = b.var if isinstance(b, F) else z3.FPVal(b, z3.Float64())
        r = F("fmod" + space.uniq(), float)
        rv = r.var
        space.add(z3.Not(z3.fpIsNaN(rv)))
        space.add(z3.fpLT(z3.fpAbs(rv), z3.fpAbs(bv)))
        space.add(z3.fpLEQ(z3.fpAbs(rv), z3.fpAbs(av)))
        space.add(z3.fpIsNegative(rv) == z3.fpIsNegative(av))
        space.add(z3.Implies(z3.fpLT(z3.fpAbs(av), z3.fpAbs(bv)), z3.fpEQ(rv, av)))
        return r


_core._PATCH_REGISTRATIONS[_math.fmod] = _fmod_contract

# ---- solver accounting -------------------------------------------------------------
SOLVER = {"checks": 0, "seconds": 0.0}
_orig_is_sat = _ss.solver_is_sat


def _counting_is_sat(solver, *exprs):
    t0 = time.perf_counter()
    try:
        return _orig_is_sat(solver, *exprs)
    finally:
        SOLVER["checks"] += 1
        SOLVER["seconds"] += time.perf_counter() - t0


_ss.solver_is_sat = _counting_is_sat


@dataclass
class PathRec:
    args: list
    verdict: str            # ok | fail | exc
    detail: str = ""
    labels: list = field(default_factory=list)
    decisions: int = 0
    notes: dict = field(default_factory=dict)

    def to_json(self):
        return {"args": enc(self.args), "verdict": self.verdict, "detail": self.detail,
                "labels": self.labels, "decisions": self.decisions,
                "notes": enc(self.notes) if self.notes else {}}


@dataclass
class Result:
    status: str
    paths: int = 0
    ignored: int = 0
    cut: int = 0
    excluded_known: dict = field(default_factory=dict)
    abandoned: int = 0
    abandoned_reasons: dict = field(default_factory=dict)
    decisions: int = 0
    fails: list = field(default_factory=list)
    recs: list = field(default_factory=list)
    labels: list = field(default_factory=list)
    cpu_s: float = 0.0
    wall_s: float = 0.0
    solver_checks: int = 0
    solver_s: float = 0.0
    exhausted: bool = False
    hang_args: object = None
    iterations: int = 0

    def to_json(self, keep=40):
        return {
            "status": self.status, "paths": self.paths, "ignored": self.ignored, "cut": self.cut,
            "excluded_known": self.excluded_known, "abandoned": self.abandoned,
            "abandoned_reasons": self.abandoned_reasons, "decisions": self.decisions,
            "fails": [f.to_json() for f in self.fails],
            "recs": [r.to_json() for r in self.recs],
            "labels": self.labels, "cpu_s": round(self.cpu_s, 3), "wall_s": round(self.wall_s, 3),
            "solver_checks": self.solver_checks, "solver_s": round(self.solver_s, 3),
            "exhausted": self.exhausted, "iterations": self.iterations,
            "hang_args": enc(self.hang_args) if self.hang_args is not None else None,
        }


def _alarm(signum, frame):
    raise HangAbort()


def _short(e):
    s = "%s: %s" % (type(e).__name__, e)
    return s if len(s) < 300 else s[:300] + "..."


def explore(fn, *, per_path=10.0, budget=60.0, max_fail=12, max_paths=200000,
            hang_s=None, keep_recs=100000):
    """Explore every feasible path of `fn` (typed parameters = symbolic variables)."""
    sig = inspect.signature(fn)
    root = RootNode()
    res = Result(status="NOT_EXHAUSTED")
    labels = set()
    t_cpu0, t_wall0 = process_time(), time.time()
    s_checks0, s_sec0 = SOLVER["checks"], SOLVER["seconds"]
    hang_s = hang_s or max(3 * per_path, 20.0)
    old_handler = signal.signal(signal.SIGALRM, _alarm)
    fail_keys = set()
    try:
        while True:
            now = process_time()
            if now - t_cpu0 > budget or res.paths >= max_paths or len(res.fails) >= max_fail:
                break
            res.iterations += 1
            space = StateSpace(execution_deadline=now + per_path,
                               model_check_timeout=per_path / 2, search_root=root)
            compat.reset_path_state()
            status = None
            pre_args = None
            signal.alarm(int(hang_s) + 1)
            try:
                with condition_parser([AnalysisKind.PEP316]), Patched(), COMPOSITE_TRACER, \
                        NoTracing(), StateSpaceContext(space):
                    try:
                        pre_args = gen_args(sig)
                        args = deepcopyext(pre_args, CopyMode.REGULAR, {})
                        ret = None
                        cut = known = hung = False
                        with ExceptionFilter() as ef, ResumedTracing():
                            try:
                                ret = fn(*args.args)
                            except BoundReached:
                                cut = True
                            except KnownRegion as k:
                                known = str(k)
                            except StepBudget:
                                ret = "step budget exhausted: the run did not end within the harness's step bound"
                            except HangAbort:
                                signal.alarm(0)
                                hung = True
                        if ef.ignore:
                            raise IgnoreAttempt()
                        if ef.user_exc and isinstance(ef.user_exc[0], NotDeterministic):
                            raise NotDeterministic()
                        with ResumedTracing():
                            space.detach_path()
                            witness = deep_realize(pre_args)
                            if ef.user_exc:
                                exc = ef.user_exc[0]
                                verdict, detail = "exc", realize(_short(exc))
                                tb = ef.user_exc[1]
                                if tb:
                                    fr = tb[-1]
                                    detail += " @%s:%s" % (fr.filename.split("/")[-1], fr.lineno)
                            elif hung:
                                verdict, detail = "hang", ""
                            elif cut or known:
                                verdict, detail = "cut", ""
                            else:
                                r = deep_realize(ret)
                                if r is True:
                                    verdict, detail = "ok", ""
                                else:
                                    verdict, detail = "fail", str(r)
                            notes = deep_realize(compat.notes())
                        wargs = list(witness.args)
                        if hung:
                            res.status = "HANG"
                            res.hang_args = wargs
                        elif known:
                            res.excluded_known[known] = res.excluded_known.get(known, 0) + 1
                        elif cut:
                            res.cut += 1
                        else:
                            res.paths += 1
                            res.decisions += len(space.choices_made)
                            rec = PathRec(wargs, verdict, detail, compat.labels(),
                                          len(space.choices_made), notes)
                            labels.update(rec.labels)
                            if verdict != "ok":
                                key = (verdict, detail.split(" @")[-1] if verdict == "exc" else detail[:80])
                                if key not in fail_keys or len(res.fails) < 4:
                                    fail_keys.add(key)
                                    res.fails.append(rec)
                                elif len(res.fails) < max_fail:
                                    res.fails.append(rec)
                            if len(res.recs) < keep_recs:
                                res.recs.append(rec)
                        status = VerificationStatus.CONFIRMED
                    except IgnoreAttempt:
                        res.ignored += 1
                        status = None
                    except UnexploredPath as e:
                        res.abandoned += 1
                        k = type(e).__name__
                        res.abandoned_reasons[k] = res.abandoned_reasons.get(k, 0) + 1
                        status = VerificationStatus.UNKNOWN
                    except NotDeterministic:
                        res.abandoned += 1
                        res.abandoned_reasons["NotDeterministic"] = \
                            res.abandoned_reasons.get("NotDeterministic", 0) + 1
                        status = VerificationStatus.UNKNOWN
                    _, exhausted = space.bubble_status(CallAnalysis(status))
            except HangAbort:
                signal.alarm(0)
                res.status = "HANG"
                try:
                    res.hang_args = [repr(a) for a in (pre_args.args if pre_args else [])]
                except BaseException:
                    res.hang_args = ["<unrealisable>"]
                break
            finally:
                signal.alarm(0)
            if res.status == "HANG":
                break
            if exhausted:
                res.exhausted = True
                break
    finally:
        signal.signal(signal.SIGALRM, old_handler)
    res.labels = sorted(labels)
    res.cpu_s = process_time() - t_cpu0
    res.wall_s = time.time() - t_wall0
    res.solver_checks = SOLVER["checks"] - s_checks0
    res.solver_s = SOLVER["seconds"] - s_sec0
    if res.status != "HANG":
        if res.fails:
            res.status = "REFUTED"
        elif res.exhausted and res.abandoned == 0:
            res.status = "CONFIRMED"
        else:
            res.status = "NOT_EXHAUSTED"
    return res
