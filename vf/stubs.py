"""Environment stubs (each is part of the claim and is listed in the evidence)."""
from contextlib import contextmanager

from .compat import BoundReached


class FakeTime:
    """Stands in for the `time` module inside microjs.vm / microjs.context.

    Readings are supplied by the harness (arbitrary non-decreasing values built as cumulative
    sums of non-negative symbolic increments); after the last one the path is cut.
    """

    def __init__(self, readings, on_read=None):
        self.readings = list(readings)
        self.n = 0
        self.on_read = on_read

    def monotonic(self):
        if self.n >= len(self.readings):
            raise BoundReached("clock readings used up")
        v = self.readings[self.n]
        if self.on_read:
            self.on_read(self.n)
        self.n += 1
        return v

    def time(self):
        return 0.0


@contextmanager
def fake_clock(readings, on_read=None):
    import microjs.vm as _vm
    import microjs.context as _ctx
    clock = FakeTime(readings, on_read)
    saved = (_vm.time, _ctx.time)
    _vm.time = clock
    _ctx.time = clock
    try:
        yield clock
    finally:
        _vm.time, _ctx.time = saved


class SizedList(list):
    """A list whose len() is a harness-chosen (possibly symbolic) integer: only the length of the
    operand / frame stacks enters the accounting that is being checked."""

    def __init__(self, n):
        super().__init__()
        self._n = n

    def __len__(self):
        return self._n


class GrowList(list):
    """A list that pretends to already hold `base` (possibly symbolic) elements: len() = base + the
    elements really appended; item access addresses the real elements (used for a bytecode buffer of
    arbitrary size whose first instructions are real)."""

    def __init__(self, base, real=()):
        super().__init__(real)
        self._base = base

    def __len__(self):
        return self._base + list.__len__(self)
