"""C11 - values cross the Python/JavaScript boundary faithfully (DESIGN 4, C11)."""
import copy

from ..harness_api import Harness
from ..compat import pre, cover, NoTracing
from ..jsrun import new_context, compile_js, run_compiled
from ..refsem.ops import is_neg

ASSUMPTIONS = [
    "values are built from solver-chosen shape indices (kind per node, <= 2 children per container, depth <= 2 quick / 3 thorough) "
    "with symbolic leaves: all integers, all IEEE doubles (plus pinned -0.0/NaN/infinities for the sign and NaN checks), all "
    "strings of length <= 2 over every code point; dictionary keys come from a pinned pool that contains the names with a "
    "special meaning in JavaScript (__proto__, constructor, length, toString, numeric-looking and empty names) and one "
    "symbolic key",
    "dictionary keys are strings (JSON-like values); tuples, sets, bytes and other non-JSON Python values are outside the claim; "
    "functions are handed back as engine function objects (documented)",
    "Context creation and parsing/compiling of the concrete scripts run untraced; Context.set/get/_to_js/_to_python, the "
    "interpreter and the native call protocol run traced on the symbolic values",
]
FNS = ("microjs.context.Context.set", "microjs.context.Context.get", "microjs.context.Context.eval", "microjs.context.Context._to_python",
       "microjs.values.python_to_js", "microjs.values.native_result", "microjs.vm.VM._call_function", "microjs.vm.VM._call_method",
       "microjs.vm.VM._call_callback")

KEYS = ["a", "b", "", "0", "1", "-1", "__proto__", "constructor", "length", "toString", "hasOwnProperty", "prototype", "_properties",
        "__class__", "a b", "\U0001F600", "valueOf", "get", "1.5", "null"]
KEYS2 = ["b", "a", "__proto__", "0"]
FLOATS = [0.0, -0.0, float("nan"), float("inf"), float("-inf"), 1.5, 5e-324, 1.7976931348623157e308, 9007199254740994.0, -1e21, 0.1]
INTS = [0, 1, -1, 255, 2 ** 31, -(2 ** 31) - 1, 2 ** 32, 2 ** 53, 2 ** 53 + 1, -(2 ** 63), 10 ** 30]


def pick(i, grid):
    pre(0 <= i < len(grid))
    for k in range(len(grid)):
        if i == k:
            return grid[k]
    raise AssertionError


def equiv(a, b):
    """Type-exact equality of JSON-like values: True is not 1, 1 is not 1.0, NaN equals NaN, -0.0 is not 0.0 (dicts as in
    Python: same keys, any order)."""
    if a is None or b is None:
        return a is None and b is None
    if isinstance(a, bool) or isinstance(b, bool):
        return isinstance(a, bool) and isinstance(b, bool) and a == b
    if isinstance(a, int) or isinstance(b, int):
        return isinstance(a, int) and isinstance(b, int) and a == b
    if isinstance(a, float) or isinstance(b, float):
        if not (isinstance(a, float) and isinstance(b, float)):
            return False
        if a != a or b != b:
            return a != a and b != b
        if a == 0 and b == 0:
            return is_neg(a) == is_neg(b)
        return a == b
    if isinstance(a, str) or isinstance(b, str):
        return isinstance(a, str) and isinstance(b, str) and a == b
    if isinstance(a, list) or isinstance(b, list):
        if not (isinstance(a, list) and isinstance(b, list)) or len(a) != len(b):
            return False
        for x, y in zip(a, b):
            if not equiv(x, y):
                return False
        return True
    if isinstance(a, dict) or isinstance(b, dict):
        if not (isinstance(a, dict) and isinstance(b, dict)) or len(a) != len(b):
            return False
        for ka, va in a.items():
            if not isinstance(ka, str) or ka not in b or not equiv(va, b[ka]):
                return False
        return True
    return a is b


def shares_mutable(a, b):
    """Do two JSON-like structures share a list or dict object?"""
    ids = set()

    def walk(x, collect):
        if isinstance(x, (list, dict)):
            if collect:
                ids.add(id(x))
            elif id(x) in ids:
                return True
            for y in (x if isinstance(x, list) else x.values()):
                if walk(y, collect):
                    return True
        return False
    walk(a, True)
    return walk(b, False)


def snapshot(v):
    if isinstance(v, list):
        return [snapshot(x) for x in v]
    if isinstance(v, dict):
        return {k: snapshot(x) for k, x in v.items()}
    return v


def mutate(v):
    """Damage every container of a structure in place."""
    if isinstance(v, list):
        for x in v:
            mutate(x)
        v.append("damage")
    elif isinstance(v, dict):
        for x in list(v.values()):
            mutate(x)
        v["damage"] = 1


# ------------------------------------------------------------------------------------------- value builder
LEAF_KINDS = ("none", "true", "false", "int", "float", "str", "intgrid", "floatgrid")
NODE_KINDS = LEAF_KINDS + ("list0", "list1", "list2", "dict0", "dict1", "dict2", "shared")


def make_value(kinds, leaves, keyidx, depth):
    """Build a JSON-like value from solver-chosen kinds (pre-order), symbolic leaves and key indices."""
    pos = [0]
    kpos = [0]
    i, f, s, ig, fg = leaves

    def key():
        k = pick(keyidx[kpos[0] % len(keyidx)], KEYS if kpos[0] == 0 else KEYS2)
        kpos[0] += 1
        return k

    def node(d):
        k = pick(kinds[pos[0]], NODE_KINDS if d < depth else LEAF_KINDS) if pos[0] < len(kinds) else "none"
        pos[0] += 1
        if k == "none":
            return None
        if k == "true":
            return True
        if k == "false":
            return False
        if k == "int":
            return i
        if k == "float":
            return f
        if k == "str":
            return s
        if k == "intgrid":
            return pick(ig, INTS)
        if k == "floatgrid":
            return pick(fg, FLOATS)
        if k == "list0":
            return []
        if k == "list1":
            return [node(d + 1)]
        if k == "list2":
            a = node(d + 1)
            return [a, node(d + 1)]
        if k == "dict0":
            return {}
        if k == "dict1":
            return {key(): node(d + 1)}
        if k == "dict2":
            k1, k2 = key(), key()
            a = node(d + 1)
            out = {k1: a}
            out[k2] = node(d + 1)
            return out
        if k == "shared":
            child = [node(d + 1)]
            return [child, child, {"again": child}]
        raise KeyError(k)
    return node(0)


def make_roundtrip(root, depth, nkinds):
    def roundtrip_case(k1, k2, k3, k4, k5, k6, i, f, s, ig, fg, key1, key2, key3):
        pre(len(s) <= 2)
        ks = [NODE_KINDS.index(root), k1, k2, k3, k4, k5, k6][:nkinds]
        for k in (k1, k2, k3, k4, k5, k6)[nkinds - 1:]:
            pre(k == 0)
        pre(ig == fg)
        if root in ("dict2", "shared") and depth == 1:
            pre(k1 in (0, 3, 5) and k2 in (0, 3, 5))      # key combinations x {None, int, str} children
        v = make_value(ks, (i, f, s, ig, fg), (key1, key2, key3), depth)
        want = snapshot(v)
        ctx = new_context()
        ctx.set("v", v)
        cover("judged")
        g1 = ctx.get("v")
        if not equiv(g1, want):
            return lambda: "get after set returns %r for %r" % (g1, want)
        e1 = ctx.eval("v")
        if not equiv(e1, want):
            return lambda: "eval of the name returns %r for %r" % (e1, want)
        # nothing mutable is shared: with the argument, between two results, with the context
        with NoTracing():
            pass
        if shares_mutable(v, g1) or shares_mutable(g1, e1):
            return lambda: "the returned structure shares a list/dict with the argument or with another result"
        mutate(v)
        g2 = ctx.get("v")
        if not equiv(g2, want):
            return lambda: "mutating the Python argument after set changed the context: %r" % (g2,)
        mutate(g1)
        mutate(e1)
        g3 = ctx.get("v")
        if not equiv(g3, want):
            return lambda: "mutating a returned structure changed the context: %r" % (g3,)
        return True
    roundtrip_case.__annotations__ = {"k1": int, "k2": int, "k3": int, "k4": int, "k5": int, "k6": int, "i": int, "f": float, "s": str,
                                      "ig": int, "fg": int, "key1": int, "key2": int, "key3": int, "return": bool}
    return roundtrip_case


def symkey_case(k: str, i: int, s: str) -> bool:
    """One symbolic key (any string of length <= 2) next to a fixed one."""
    pre(len(k) <= 2 and len(s) <= 1)
    v = {"fixed": i, k: s}
    want = dict(v)
    ctx = new_context()
    ctx.set("v", v)
    cover("judged")
    g = ctx.get("v")
    if not equiv(g, want):
        return lambda: "get after set returns %r for %r" % (g, want)
    e = ctx.eval("v")
    if not equiv(e, want):
        return lambda: "eval returns %r for %r" % (e, want)
    if k != "fixed":
        r = ctx.eval("Object.keys(v).length")
        if r != 2:
            return lambda: "the script sees %r keys" % (r,)
    return True


# ------------------------------------------------------------------------------------------- script results
RESULT_TEMPLATES = [
    # (name, source using globals A (number) B (string) C (boolean), expected(A, B, C))
    ("primitives", "[A, B, C, undefined, null]", lambda A, B, C: [A, B, C, None, None]),
    ("nested", "[[A], [[B, [C]]], []]", lambda A, B, C: [[A], [[B, [C]]], []]),
    ("object", "({x: A, y: {z: B}, w: [C], u: undefined, n: null})", lambda A, B, C: {"x": A, "y": {"z": B}, "w": [C], "u": None, "n": None}),
    ("accessor", "({a: A, get g() { return B; }, set g(v) {}, b: C})", lambda A, B, C: {"a": A, "b": C}),
    ("inherited", "var p = {inh: A}; var o = Object.create(p); o.own = B; o", lambda A, B, C: {"own": B}),
    ("computed-keys", "var o = {}; o[B] = A; o['k' + 1] = C; o", None),
    ("array-extra", "var a = [A, B]; a.extra = C; a", lambda A, B, C: [A, B]),
    ("arguments", "(function () { return arguments; })(A, B, C)", lambda A, B, C: [A, B, C]),
    ("order", "var o = {}; o.z = A; o.a = B; o.m = C; delete o.a; o.a = B; o", lambda A, B, C: {"z": A, "m": C, "a": B}),
    ("undefined", "undefined", lambda A, B, C: None),
    ("null", "null", lambda A, B, C: None),
    ("statement", "var q = A;", lambda A, B, C: None),
    ("from-method", "[A, B].map(function (x) { return [x]; }).concat([[C]])", lambda A, B, C: [[A], [B], [C]]),
    ("json-parse", "JSON.parse('{\"k\": [1, {\"m\": null}]}')", lambda A, B, C: {"k": [1, {"m": None}]}),
    ("shared", "var s = [A]; [s, s, {k: s}]", lambda A, B, C: [[A], [A], {"k": [A]}]),
    ("constructed", "function P(x) { this.x = x; } P.prototype.m = function () {}; new P(A)", lambda A, B, C: {"x": A}),
]


def make_result(name, src, expected, num_kind):
    def result_case(ai, af, b, c, bk):
        if name == "computed-keys":
            pre(b == "")
            b = pick(bk, [k for k in KEYS if k != "__proto__"])      # an object key: realised anyway, so solver-indexed
        else:
            pre(len(b) <= 2 and bk == 0)
        A = ai if num_kind == "int" else af
        ctx = new_context()
        ctx.set("A", A)
        ctx.set("B", b)
        ctx.set("C", c)
        r1 = ctx.eval(src)
        cover("judged")
        if expected is None:
            want = {b: A, "k1": c} if b != "k1" else {"k1": c}
        else:
            want = expected(A, b, c)
        if not equiv(r1, want):
            return lambda: "eval returns %r, expected %r" % (r1, want)
        if name in ("statement", "undefined", "null", "json-parse"):
            return True
        r2 = ctx.eval(src)
        if shares_mutable(r1, r2):
            return lambda: "two evaluations return structures that share a list/dict"
        mutate(r1)
        if not equiv(r2, want):
            return lambda: "mutating one result changed another"
        return True
    result_case.__annotations__ = {"ai": int, "af": float, "b": str, "c": bool, "bk": int, "return": bool}
    return result_case


def live_case(i: int, s: str) -> bool:
    """A result is a copy: mutating it does not change what the script sees, and vice versa."""
    pre(len(s) <= 2)
    ctx = new_context()
    ctx.set("I", i)
    ctx.set("S", s)
    ctx.eval("var arr = [I, [S]]; var obj = {k: [I], s: S};")
    a = ctx.get("arr")
    o = ctx.eval("obj")
    cover("judged")
    a[1].append("x")
    a.append(1)
    o["k"].append(2)
    o["new"] = 3
    if not equiv(ctx.eval("[arr.length, arr[1].length, obj.k.length, Object.keys(obj).length]"), [2, 1, 1, 2]):
        return lambda: "mutating a returned structure is visible in the script"
    ctx.eval("arr.push(9); obj.k.push(9);")
    if not (equiv(a, [i, [s, "x"], 1]) and equiv(o, {"k": [i, 2], "s": s, "new": 3})):
        return lambda: "a later script mutation changed an earlier result"
    return True


# ------------------------------------------------------------------------------------------- callables
CALL_FORMS = [
    ("direct", "rec(%s)"),
    ("method", "var o = {m: rec}; o.m(%s)"),
    ("call", "rec.call(null%s)"),
    ("apply", "rec.apply(null, [%s])"),
    ("bind", "rec.bind(null)(%s)"),
    ("nested", "(function (f) { return f(%s); })(rec)"),
    ("in-try", "var r; try { r = rec(%s); } finally { } r"),
]
ARG_KINDS = ("int", "float", "str", "true", "false", "null", "undefined", "array", "object", "function", "floatgrid")


def make_args(form_name, form, nargs):
    def args_case(k1, k2, k3, i, f, s, fg, r):
        pre(len(s) <= 2)
        kinds = [pick(k, ARG_KINDS) for k in (k1, k2, k3)[:nargs]]
        for k in (k1, k2, k3)[nargs:]:
            pre(k == 0)
        ctx = new_context()
        got = []

        def rec(*a):
            got.append(a)
            return r
        ctx.set("rec", rec)
        names = []
        want = []
        import microjs.values as V
        for n, k in enumerate(kinds):
            nm = "A%d" % n
            if k in ("int", "float", "str", "floatgrid"):
                val = {"int": i, "float": f, "str": s}.get(k) if k != "floatgrid" else pick(fg, FLOATS)
                ctx.set(nm, val)
                names.append(nm)
                want.append(("prim", val))
            elif k in ("true", "false", "null", "undefined"):
                names.append(k)
                want.append(("prim", {"true": True, "false": False, "null": V.NULL, "undefined": V.UNDEFINED}[k]))
            elif k == "array":
                names.append("[1, 2]")
                want.append(("array", 2))
            elif k == "object":
                names.append("{p: 1}")
                want.append(("object", "p"))
            else:
                names.append("function () {}")
                want.append(("function", None))
        args = ", ".join(names)
        if form_name == "call" and args:
            args = ", " + args
        src = form % args
        res = ctx.eval(src)
        cover("judged")
        if len(got) != 1:
            return lambda: "the exposed function ran %d times for one call" % len(got)
        rcv = got[0]
        if len(rcv) != len(want):
            return lambda: "the exposed function received %d arguments, the script passed %d" % (len(rcv), len(want))
        for n, ((kind, val), a) in enumerate(zip(want, rcv)):
            if kind == "prim":
                if val is V.NULL or val is V.UNDEFINED:
                    ok = a is val
                else:
                    ok = equiv(a, val)
            elif kind == "array":
                ok = isinstance(a, V.JSArray) and len(a._elements) == 2
            elif kind == "object":
                ok = isinstance(a, V.JSObject) and not isinstance(a, V.JSArray) and a.get("p") == 1
            else:
                ok = isinstance(a, V.JSFunction)
            if not ok:
                return lambda: "argument %d arrives as %r" % (n, a)
        if not equiv(res, r):
            return lambda: "the return value %r arrives back as %r" % (r, res)
        return True
    args_case.__annotations__ = {"k1": int, "k2": int, "k3": int, "i": int, "f": float, "s": str, "fg": int, "r": int, "return": bool}
    return args_case


RETURN_KINDS = ("none", "true", "false", "int", "float", "str", "floatgrid", "intgrid", "list", "dict", "nested", "tuple", "jsarray", "jsobject")
OBSERVERS = [
    # how the script uses the returned value
    ("typeof", "typeof f()"),
    ("value", "f()"),
    ("stored", "var q = f(); q"),
    ("element", "[f()][0]"),
    ("property", "({p: f()}).p"),
    ("argument", "(function (x) { return x; })(f())"),
    ("callback", "[0].map(f)[0]"),
    ("method", "({m: f}).m()"),
    ("getter-like", "var h = {v: f}; h.v()"),
    ("strict-self", "var q = f(); q === q || q !== q"),
]


def make_returns(obs_name, obs_src):
    def returns_case(k, i, f, s, ig, fg):
        pre(len(s) <= 2)
        kind = pick(k, RETURN_KINDS)
        import microjs.values as V
        if kind == "none":
            r, want, ty = None, None, "undefined"
        elif kind == "true":
            r, want, ty = True, True, "boolean"
        elif kind == "false":
            r, want, ty = False, False, "boolean"
        elif kind == "int":
            r, want, ty = i, i, "number"
        elif kind == "float":
            r, want, ty = f, f, "number"
        elif kind == "str":
            r, want, ty = s, s, "string"
        elif kind == "floatgrid":
            r = pick(fg, FLOATS)
            want, ty = r, "number"
        elif kind == "intgrid":
            r = pick(ig, INTS)
            want, ty = r, "number"
        elif kind == "list":
            r, want, ty = [i, s], [i, s], "object"
        elif kind == "dict":
            r, want, ty = {"a": i, "b": s}, {"a": i, "b": s}, "object"
        elif kind == "nested":
            r, want, ty = [{"k": [i, None]}, [], {}], [{"k": [i, None]}, [], {}], "object"
        elif kind == "tuple":
            r, want, ty = (i, s), [i, s], "object"
        elif kind == "jsarray":
            r = V.JSArray()
            r.push(i)
            want, ty = [i], "object"
        else:
            r = V.JSObject()
            r.set("x", s)
            want, ty = {"x": s}, "object"
        ctx = new_context()
        ctx.set("f", lambda *a: r)
        res = ctx.eval(obs_src)
        cover("judged")
        if obs_name == "typeof":
            if res != ty:
                return lambda: "typeof of a returned %s is %r, expected %r" % (kind, res, ty)
            return True
        if obs_name == "strict-self":
            if res is not True:
                return lambda: "returned %s is not a JavaScript value (=== on itself gives %r)" % (kind, res)
            return True
        if not equiv(res, want):
            return lambda: "returned %s %r arrives back through %s as %r" % (kind, want, obs_name, res)
        if kind in ("list", "dict", "nested", "tuple"):
            chk = ctx.eval("var q = f(); [Array.isArray(q), typeof q, Array.isArray(q) ? q.length : Object.keys(q).length, q === q]")
            if not equiv(chk, [kind != "dict", "object", {"list": 2, "dict": 2, "nested": 3, "tuple": 2}[kind], True]):
                return lambda: "a returned %s is not an ordinary JavaScript array/object in the script: %r" % (kind, chk)
        return True
    returns_case.__annotations__ = {"k": int, "i": int, "f": float, "s": str, "ig": int, "fg": int, "return": bool}
    return returns_case


# ------------------------------------------------------------------------------------------- histories against a dict model
NAMES = ["x", "y", "Object"]
H_OPS = ("set-int", "set-str", "set-list", "set-none", "get", "eval-read", "eval-assign", "eval-var-copy", "eval-push", "eval-delete-prop",
         "set-dict", "eval-typeof")


def make_history(n, first):
    def history_case(o1, n1, m1, o2, n2, m2, o3, n3, m3, i, s):
        pre(len(s) <= 1)
        if first is not None:
            pre(o1 == first)
        steps = [(o1, n1, m1), (o2, n2, m2), (o3, n3, m3)][:n]
        for t in [(o1, n1, m1), (o2, n2, m2), (o3, n3, m3)][n:]:
            pre(t[0] == 0 and t[1] == 0 and t[2] == 0)
        ctx = new_context()
        model = {}
        from microjs.errors import JSError
        for (o, a, b) in steps:
            op = pick(o, H_OPS)
            name = pick(a, NAMES)
            if op == "eval-var-copy":
                other = pick(b, NAMES[:2])
            else:
                pre(b == 0)
                other = None
            if op == "set-int":
                ctx.set(name, i)
                model[name] = i
            elif op == "set-str":
                ctx.set(name, s)
                model[name] = s
            elif op == "set-list":
                ctx.set(name, [i, [s]])
                model[name] = [i, [s]]
            elif op == "set-dict":
                ctx.set(name, {"k": i, "l": [s]})
                model[name] = {"k": i, "l": [s]}
            elif op == "set-none":
                ctx.set(name, None)
                model[name] = None
            elif op == "get":
                g = ctx.get(name)
                if name in model and not equiv(g, model[name]):
                    return lambda: "get(%r) returns %r, the model holds %r" % (name, g, model[name])
            elif op == "eval-read":
                if name in model:
                    g = ctx.eval(name)
                    if not equiv(g, model[name]):
                        return lambda: "eval(%r) returns %r, the model holds %r" % (name, g, model[name])
            elif op == "eval-typeof":
                if name in model:
                    g = ctx.eval("typeof " + name)
                    v = model[name]
                    want = ("object" if v is None or isinstance(v, (list, dict)) else "number" if isinstance(v, int) else "string")
                    if g != want:
                        return lambda: "typeof %s is %r for %r" % (name, g, v)
            elif op == "eval-assign":
                ctx.eval("%s = [1, {a: null}];" % name)
                model[name] = [1, {"a": None}]
            elif op == "eval-var-copy":
                if other in model and name != "Object":
                    ctx.eval("var %s = %s;" % (name, other))
                    model[name] = snapshot(model[other])
            elif op == "eval-push":
                if isinstance(model.get(name), list):
                    ctx.eval("%s.push(7);" % name)
                    model[name] = model[name] + [7]
            elif op == "eval-delete-prop":
                if isinstance(model.get(name), dict) and "k" in model[name]:
                    ctx.eval("delete %s.k;" % name)
                    model[name] = {k: v for k, v in model[name].items() if k != "k"}
            cover("judged")
            for nm in NAMES[:2]:
                if nm in model:
                    g = ctx.get(nm)
                    if not equiv(g, model[nm]):
                        return lambda: "after %s on %s: get(%r) returns %r, the model holds %r" % (op, name, nm, g, model[nm])
                else:
                    if ctx.get(nm) is not None:
                        return lambda: "get of a name never defined returns %r" % (ctx.get(nm),)
        return True
    history_case.__annotations__ = {"o1": int, "n1": int, "m1": int, "o2": int, "n2": int, "m2": int, "o3": int, "n3": int, "m3": int,
                                    "i": int, "s": str, "return": bool}
    return history_case


def wrap(fn):
    """Harness functions return True or a zero-argument callable producing the failure text (never built on passing paths)."""
    def run(*a, **k):
        out = fn(*a, **k)
        if out is True:
            return True
        return out() if callable(out) else out
    run.__annotations__ = dict(fn.__annotations__)
    run.__name__ = getattr(fn, "__name__", "case")
    run.__doc__ = fn.__doc__
    import inspect
    run.__signature__ = inspect.signature(fn)
    return run


def harnesses():
    hs = []
    for root in NODE_KINDS:
        leaf = root in LEAF_KINDS
        depth, nk = (0, 1) if leaf else (1, 3)
        hs.append(Harness(id="C11.roundtrip.d1.%s" % root, fn=wrap(make_roundtrip(root, depth, nk)), group="roundtrip", functions=FNS,
                          per_path=30, budget=300, require=("judged",),
                          bounds=["root kind %s, children any leaf kind; symbolic int/double/str(len<=2) leaves, keys from a pool of %d" % (root, len(KEYS))]))
        if not leaf:
            hs.append(Harness(id="C11.roundtrip.d2.%s" % root, fn=wrap(make_roundtrip(root, 2, 5)), group="roundtrip", functions=FNS,
                              per_path=30, budget=100, budget_thorough=900, require=("judged",), must_exhaust=False,
                              bounds=["root kind %s, depth 2: children any kind, grandchildren any leaf kind (first 5 nodes in pre-order "
                                      "solver-chosen, the rest None)" % root]))
            hs.append(Harness(id="C11.roundtrip.d3.%s" % root, fn=wrap(make_roundtrip(root, 3, 7)), group="roundtrip", functions=FNS,
                              per_path=30, budget=3000, tier="thorough", require=("judged",), must_exhaust=False,
                              bounds=["root kind %s, depth 3, first 7 nodes in pre-order solver-chosen" % root]))
    hs.append(Harness(id="C11.roundtrip.symkey", fn=wrap(symkey_case), group="roundtrip", functions=FNS, per_path=30, budget=60,
                      require=("judged",), must_exhaust=False,
                      bounds=["dictionary key = any string of length <= 2 (bug hunting only: a Python dict realises its keys)"]))
    for name, src, exp in RESULT_TEMPLATES:
        for nk in ("int", "float"):
            hs.append(Harness(id="C11.result.%s.%s" % (name, nk), fn=wrap(make_result(name, src, exp, nk)), group="result", functions=FNS,
                              per_path=30, budget=300, require=("judged",),
                              bounds=["script %r with A = any %s, B = any string of length <= 2, C = any boolean" % (src, nk)]))
    hs.append(Harness(id="C11.result.live", fn=wrap(live_case), group="result", functions=FNS, per_path=30, budget=200, require=("judged",),
                      bounds=["results are copies in both directions; symbolic int and string leaves"]))
    for fname, form in CALL_FORMS:
        for nargs in (0, 1, 2, 3):
            quick = nargs <= 2
            hs.append(Harness(id="C11.call.args.%s.%d" % (fname, nargs), fn=wrap(make_args(fname, form, nargs)), group="call", functions=FNS,
                              per_path=30, budget=600 if nargs < 3 else 1500, tier="quick" if quick else "thorough", require=("judged",),
                              bounds=["call form %r with %d arguments, each any of %d kinds (symbolic int/double/string, constants, array, "
                                      "object, function); symbolic int return value" % (form, nargs, len(ARG_KINDS))]))
    for oname, osrc in OBSERVERS:
        hs.append(Harness(id="C11.call.returns.%s" % oname, fn=wrap(make_returns(oname, osrc)), group="call", functions=FNS, per_path=30,
                          budget=300, require=("judged",),
                          bounds=["return value of each of %d kinds (None, booleans, symbolic int/double/string, pinned numbers, list, dict, "
                                  "nested, tuple, engine array/object) observed through %r" % (len(RETURN_KINDS), osrc)]))
    for n in (1, 2, 3):
        for first in ([None] if n == 1 else list(range(len(H_OPS)))):
            hs.append(Harness(id="C11.history.%d%s" % (n, "" if first is None else "." + H_OPS[first]), fn=wrap(make_history(n, first)),
                              group="history", functions=FNS, per_path=30, budget=300 if n < 3 else 3000, tier="quick" if n < 3 else "thorough",
                              require=("judged",),
                              bounds=["%d steps%s, each one of %d set/get/eval operations on one of %d names, symbolic int and string payloads; "
                                      "dict model compared after every step" % (n, "" if first is None else " starting with " + H_OPS[first],
                                                                                  len(H_OPS), len(NAMES))]))
    return hs
