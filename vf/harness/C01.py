"""C01 - the time limit bounds every evaluation (DESIGN 4, C01)."""
from ..harness_api import Harness
from ..compat import pre, cover, known, NoTracing, BoundReached
from ..stubs import fake_clock, SizedList

ASSUMPTIONS = [
    "the clock is replaced by a stub returning arbitrary non-decreasing readings (cumulative sums of "
    "non-negative symbolic increments); at most k readings per path, then the path is cut",
    "one native operation on a huge operand is outside the guarantee (property scope)",
    "induction over run length (a poll every 1000 steps, a poll past the deadline always stops) is an "
    "argument made in DESIGN.md from the one-step lemma, not a machine-checked proof",
]


# ---- Lemma A: one step of VM._check_limits from an arbitrary counter / clock state -----------
def lemma_check_limits(c: int, s: float, dt: float, T: float, p: int, q: int, M: int, use_mem: bool) -> bool:
    pre(c >= 0 and p >= 0 and q >= 0 and M > 0)
    pre(T > 0 and s == s and dt >= 0 and abs(s) < 1e300 and dt < 1e300)
    from microjs.vm import VM
    from microjs.errors import TimeLimitError, MemoryLimitError
    t = s + dt
    vm = VM(memory_limit=M if use_mem else None, time_limit=T)
    vm.start_time = s
    vm.instruction_count = c
    vm.stack = SizedList(p)
    vm.call_stack = SizedList(q)
    polls = (c + 1) % 1000 == 0
    want = "time" if (polls and t - s > T) else ("mem" if (use_mem and 100 * p + 200 * q > M) else "none")
    with fake_clock([t]) as clk:
        try:
            vm._check_limits()
            got = "none"
        except TimeLimitError:
            got = "time"
        except MemoryLimitError:
            got = "mem"
        reads = clk.n
    cover("time", got == "time")
    cover("mem", got == "mem")
    cover("none", got == "none")
    if got != want:
        return "check_limits(count=%r, elapsed=%r, T=%r, stack=%r, frames=%r, M=%r): %s, expected %s" % (
            c, dt, T, p, q, M if use_mem else None, got, want)
    if vm.instruction_count != c + 1:
        return "instruction counter not advanced by one"
    if reads != (1 if polls else 0):
        return "clock read %d times (expected %d)" % (reads, 1 if polls else 0)
    return True


def harnesses():
    hs = []
    hs.append(Harness(
        id="C01.lemma.check_limits", fn=lemma_check_limits,
        bounds=["instruction counter: any integer >= 0", "start time, elapsed time, T: any finite doubles, T > 0",
                "stack / frame depths: any integers >= 0; memory limit any integer > 0 or unset"],
        per_path=30, budget=120, require=("time", "mem", "none"), group="lemma",
        functions=("microjs.vm.VM._check_limits",), stubs=("symbolic clock (microjs.vm.time)",)))
    return hs
