"""C01 - the time limit bounds every evaluation (DESIGN 4, C01)."""
from ..harness_api import Harness
from ..compat import pre, cover, known, NoTracing, BoundReached, StepBudget
from ..stubs import fake_clock, SizedList

ASSUMPTIONS = [
    "the clock is replaced by a stub returning arbitrary non-decreasing readings (cumulative sums of "
    "non-negative symbolic increments); at most k readings per path, then the path is cut",
    "one native operation on a huge operand is outside the guarantee (property scope)",
    "induction over run length (a poll every 1000 steps, a poll past the deadline always stops) is an "
    "argument made in DESIGN.md from the one-step lemma, not a machine-checked proof",
]


# ---- Lemma A: one step of VM._check_limits from an arbitrary counter / clock state -----------
def lemma_check_limits(c: int, s: float, dt: float, T: float, p: int, q: int, M: int, use_mem: bool) -> bool:
    pre(c >= 0 and p >= 0 and q >= 0 and M > 0)
    pre(T > 0 and s == s and dt >= 0 and abs(s) < 1e300 and dt < 1e300)
    from microjs.vm import VM
    from microjs.errors import TimeLimitError, MemoryLimitError
    t = s + dt
    vm = VM(memory_limit=M if use_mem else None, time_limit=T)
    vm.start_time = s
    vm.instruction_count = c
    vm.stack = SizedList(p)
    vm.call_stack = SizedList(q)
    polls = (c + 1) % 1000 == 0
    want = "time" if (polls and t - s > T) else ("mem" if (use_mem and 100 * p + 200 * q > M) else "none")
    with fake_clock([t]) as clk:
        try:
            vm._check_limits()
            got = "none"
        except TimeLimitError:
            got = "time"
        except MemoryLimitError:
            got = "mem"
        reads = clk.n
    cover("time", got == "time")
    cover("mem", got == "mem")
    cover("none", got == "none")
    if got != want:
        return "check_limits(count=%r, elapsed=%r, T=%r, stack=%r, frames=%r, M=%r): %s, expected %s" % (
            c, dt, T, p, q, M if use_mem else None, got, want)
    if vm.instruction_count != c + 1:
        return "instruction counter not advanced by one"
    if reads != (1 if polls else 0):
        return "clock read %d times (expected %d)" % (reads, 1 if polls else 0)
    return True


# ---- Lemma B: symbolic clock, every place script code can run ---------------------------------------
SPIN = "while(true){ n++; }"
A28 = "a" * 28
PLACEMENTS = {
    # looping constructs at top level
    "top.while": "while(true){ n++; }",
    "top.dowhile": "do { n++; } while(true);",
    "top.for": "for(;;){ n++; }",
    "top.forin-restart": "while(true){ for (var k in {a:1,b:2}) { n++; } }",
    "top.forof-restart": "while(true){ for (var v of [1,2,3]) { n++; } }",
    "top.recursion": "function r(){ n++; return r() + 1; } r();",
    "top.mutual": "function p(){ n++; return q(); } function q(){ return p(); } p();",
    # loops that call functions on every iteration (several periods of the step counter)
    "calls.function": "function f() {} function main() { while (true) { f(); } } main();",
    "calls.top": "function f() {} while (true) { f(); }",
    "calls.args": "function f(a, b) { return a; } while (true) { n = f(n, 1) + 1; }",
    "calls.method": "var o = { m: function() { return 1; } }; for (;;) { o.m(); }",
    "calls.getter": "var o = { get x() { return 1; } }; while (true) { n += o.x; }",
    "calls.nested": "function f() { return g(); } function g() { return 1; } do { f(); } while (true);",
    "calls.new": "function F() { this.a = 1; } while (true) { new F(); }",
    # function kinds
    "function": "function f(){ %s } f();" % SPIN,
    "function-expr": "var f = function(){ %s }; f();" % SPIN,
    "arrow": "var f = () => { %s }; f();" % SPIN,
    "constructor": "function F(){ %s } new F();" % SPIN,
    "method": "var o = { m: function(){ %s } }; o.m();" % SPIN,
    "closure": "function mk(){ var c = 0; return function(){ while(true){ c++; n++; } }; } mk()();",
    # callbacks of built-ins
    "cb.forEach": "[1,2,3].forEach(function(){ %s });" % SPIN,
    "cb.map": "[1,2,3].map(function(){ %s });" % SPIN,
    "cb.filter": "[1,2,3].filter(function(){ %s });" % SPIN,
    "cb.some": "[1,2,3].some(function(){ %s });" % SPIN,
    "cb.every": "[1,2,3].every(function(){ %s });" % SPIN,
    "cb.find": "[1,2,3].find(function(){ %s });" % SPIN,
    "cb.findIndex": "[1,2,3].findIndex(function(){ %s });" % SPIN,
    "cb.reduce": "[1,2,3].reduce(function(a,b){ %s }, 0);" % SPIN,
    "cb.reduceRight": "[1,2,3].reduceRight(function(a,b){ %s }, 0);" % SPIN,
    "cb.sort": "[3,1,2].sort(function(a,b){ %s });" % SPIN,
    "cb.loop-of-callbacks": "while(true){ [1,2,3].forEach(function(x){ n += x; }); }",
    # accessors and conversions
    "getter": "var o = { get x(){ %s } }; o.x;" % SPIN,
    "setter": "var o = { set x(v){ %s } }; o.x = 1;" % SPIN,
    "valueOf": "var o = { valueOf: function(){ %s } }; o + 1;" % SPIN,
    "toString": "var o = { toString: function(){ %s } }; '' + o;" % SPIN,
    # call / apply / bind
    "call": "function f(){ %s } f.call(null);" % SPIN,
    "apply": "function f(){ %s } f.apply(null, []);" % SPIN,
    "bind": "function f(){ %s } f.bind(null)();" % SPIN,
    # nested interpreters
    "eval": "eval('while(true){ n++; }');",
    "eval-indirect": "(0, eval)('while(true){ n++; }');",
    "new-Function": "new Function('while(true){ n++; }')();",
    "eval-in-loop": "while(true){ eval('n++'); }",
    # regular expressions through every regex-consuming API
    "regex.test": "while(true){ /(a*)*b/.test('%s'); }" % A28,
    "regex.exec": "while(true){ /(a*)*b/.exec('%s'); }" % A28,
    "regex.match": "while(true){ '%s'.match(/(a*)*b/); }" % A28,
    "regex.match-g": "while(true){ '%s'.match(/(a*)*b/g); }" % A28,
    "regex.search": "while(true){ '%s'.search(/(a*)*b/); }" % A28,
    "regex.replace": "while(true){ '%s'.replace(/(a*)*b/, 'x'); }" % A28,
    "regex.replaceAll": "while(true){ '%s'.replaceAll(/(a*)*b/g, 'x'); }" % A28,
    "regex.split": "while(true){ '%s'.split(/(a*)*b/); }" % A28,
    "regex.ctor": "while(true){ new RegExp('(a*)*b').test('%s'); }" % A28,
    "regex.ctor-call": "while(true){ RegExp('(a*)*b').exec('%s'); }" % A28,
    "regex.lookahead": "while(true){ /(?=(a*)*b)a/.test('%s'); }" % A28,
    "regex.lookbehind": "while(true){ /(?<=(a*)*b)a/.test('%s'); }" % A28,
}
WRAPS = {
    "bare": "var n = 0; var L = []; %s",
    "try": "var n = 0; var L = []; try { %s } catch (e) { L.push('catch'); } finally { L.push('finally'); } L.push('after');",
    "try-in-fn": "var n = 0; var L = []; function w(){ try { %s } catch (e) { L.push('catch'); return 1; } finally { L.push('finally'); } } "
                 "while (true) { w(); L.push('again'); }",
}
K = 3   # clock readings after the start reading


class _Counts:
    ops = 0
    checks = 0


def make_placement(name, wrap, num=int, k=K):
    src = WRAPS[wrap] % PLACEMENTS[name]

    def h(T, s, d1, d2, d3, use_mem):
        if num is float:
            pre(T > 0 and T < 1e300 and s == s and abs(s) < 1e300)
            pre(d1 >= 0 and d2 >= 0 and d3 >= 0 and d1 < 1e300 and d2 < 1e300 and d3 < 1e300)
        else:
            pre(T > 0 and d1 >= 0 and d2 >= 0 and d3 >= 0)
        from ..jsrun import compile_js, new_context, run_compiled
        from microjs.errors import TimeLimitError, MemoryLimitError, JSError
        import microjs.vm as vmmod
        readings = [s, s + d1, s + d1 + d2, s + d1 + d2 + d3][:k + 1]
        # the reading at which the deadline is first seen to be passed
        jstar = None
        for j in range(1, len(readings)):
            if readings[j] - readings[0] > T:
                jstar = j
                break
        compiled = compile_js(src)
        ctx = new_context()
        ctx.time_limit = T
        ctx.memory_limit = 10 ** 9 if use_mem else None
        counts = _Counts()
        counts.ops = counts.checks = 0
        orig_exec, orig_check = vmmod.VM._execute_opcode, vmmod.VM._check_limits

        def exec_mon(self, op, arg, frame):
            counts.ops += 1
            if counts.ops > counts.checks:
                raise AssertionError("an opcode ran without a preceding limit check")
            return orig_exec(self, op, arg, frame)

        def check_mon(self):
            counts.checks += 1
            # the step counter that schedules the polls advances only here, once per interpreter step
            seen = getattr(self, "_vf_checks", 0)
            if self.instruction_count != seen:
                raise AssertionError("the step counter moved outside _check_limits (%r after %r checks): poll points "
                                     "can be skipped" % (self.instruction_count, seen))
            self._vf_checks = seen + 1
            return orig_check(self)
        vmmod.VM._execute_opcode, vmmod.VM._check_limits = exec_mon, check_mon
        outcome = None
        mark = [None]

        def on_read(idx):
            # number of handler log entries when the deadline-passing reading is handed out
            if idx == jstar:
                log0 = ctx._globals.get("L")
                mark[0] = len(getattr(log0, "_elements", []))
        try:
            with fake_clock(readings, on_read) as clk:
                try:
                    run_compiled(ctx, compiled, max_steps=4000 * (k + 1))
                    outcome = "returned"
                except TimeLimitError:
                    outcome = "TimeLimitError"
                except MemoryLimitError:
                    outcome = "MemoryLimitError"
                except JSError as e:
                    outcome = "JSError(%s)" % (str(e)[:80],)
                except BoundReached:
                    outcome = "cut"
                except StepBudget:
                    outcome = "still running after %d interpreter steps without the next clock poll" % (4000 * (k + 1))
                used = clk.n
        finally:
            vmmod.VM._execute_opcode, vmmod.VM._check_limits = orig_exec, orig_check
        log = ctx._globals.get("L")
        logged = list(getattr(log, "_elements", []))
        cover("stopped", outcome == "TimeLimitError")
        cover("cut", outcome == "cut")
        if jstar is None:
            if outcome == "cut":
                return True
            if outcome.startswith("still running"):
                return outcome + " (readings used %d of %d)" % (used, k + 1)
            return "no reading exceeded T within %d readings, yet the evaluation ended with %s" % (k, outcome)
        if outcome != "TimeLimitError":
            return "deadline passed at reading %d, evaluation ended with %s (readings used %d)" % (jstar, outcome, used)
        if used != jstar + 1:
            return "TimeLimitError raised after %d readings, the deadline was passed at reading %d" % (used - 1, jstar)
        if mark[0] is not None and len(logged) != mark[0]:
            return "the script's handlers ran after the stop began: %r" % (logged[mark[0]:],)
        return True
    h.__annotations__ = {"T": num, "s": num, "d1": num, "d2": num, "d3": num, "use_mem": bool, "return": bool}
    return h


def harnesses():
    hs = []
    hs.append(Harness(
        id="C01.lemma.check_limits", fn=lemma_check_limits,
        bounds=["instruction counter: any integer >= 0", "start time, elapsed time, T: any finite doubles, T > 0",
                "stack / frame depths: any integers >= 0; memory limit any integer > 0 or unset"],
        per_path=30, budget=120, require=("time", "mem", "none"), group="lemma",
        functions=("microjs.vm.VM._check_limits",), stubs=("symbolic clock (microjs.vm.time)",)))
    fns = ("microjs.context.Context.eval (parse/compile untraced)", "microjs.vm.VM.run", "microjs.vm.VM._execute",
           "microjs.vm.VM._call_callback", "microjs.vm.VM._check_limits", "microjs.regex.vm.RegexVM._execute",
           "microjs.regex.vm.RegexVM._execute_lookahead", "microjs.regex.vm.RegexVM._try_lookbehind_at",
           "microjs.context.Context._create_eval_function", "microjs.context.Context._create_function_constructor")
    for name in PLACEMENTS:
        for wrap in WRAPS:
            if wrap == "try-in-fn" and not (name.startswith("top.") or name.startswith("regex.t") or name == "eval"):
                continue
            hs.append(Harness(
                id="C01.place.%s.%s" % (name, wrap), fn=make_placement(name, wrap, int),
                bounds=["T: any integer > 0 (clock ticks)", "start reading: any integer; %d later readings = "
                        "cumulative sums of arbitrary non-negative integers" % K,
                        "memory_limit: unset or 10**9 (symbolic flag)", "script: " + name + " / " + wrap],
                per_path=60, budget=240, budget_thorough=600, require=("stopped",), group="placement " + wrap,
                functions=fns, stubs=("symbolic clock (microjs.vm.time, microjs.context.time)",)))
            if wrap == "try":
                hs.append(Harness(
                    id="C01.place-dbl.%s.%s" % (name, wrap), fn=make_placement(name, wrap, float),
                    bounds=["T: any double in (0, 1e300)", "start reading: any finite double; %d later readings = "
                            "cumulative sums of arbitrary non-negative doubles" % K, "script: " + name + " / " + wrap],
                    per_path=200, budget=900, tier="thorough", require=("stopped",), group="placement double clock",
                    functions=fns, stubs=("symbolic clock (microjs.vm.time, microjs.context.time)",)))
    return hs
