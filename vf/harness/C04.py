"""C04 - eval fails only with JSError: positioned JSSyntaxError or a runtime JSError (DESIGN 4, C04)."""
from ..harness_api import Harness
from ..compat import pre, cover, NoTracing
from ..skel import api as API

ASSUMPTIONS = [
    "front end: the source text is 1-2 (thorough 3) characters - any ASCII character (symbolic) or one of 26 pinned non-ASCII code "
    "points (letters, digits of other scripts, spaces, separators, surrogates, astral) - or one/two such characters "
    "spliced into every gap of small valid programs; Parser and Compiler run traced on the symbolic text; longer texts are covered "
    "only through the splice family; nesting depth stays far below the documented limit",
    "runtime: every built-in callable reachable from a fresh Context (walk of the globals; member names = identifier-like string "
    "literals of the engine's own source that resolve to functions on each of 22 receiver kinds), called and constructed with "
    "argument vectors from an adversarial grid of 29 values (first argument solver-indexed, second argument swept inside the "
    "path, third from a small grid); each call is a one-line script through the public Context.eval with a 2 s time limit",
    "a host MemoryError/OverflowError/RecursionError counts as an escaping host exception; the process address space is capped "
    "at 6 GiB so that a runaway allocation surfaces as MemoryError instead of stopping the check",
]
FNS = ("microjs.context.Context.eval", "microjs.parser.Parser.parse", "microjs.lexer.Lexer.next_token", "microjs.compiler.Compiler.compile",
       "microjs.vm.VM._run_opcode", "microjs.vm.VM._handle_python_exception", "every built-in in microjs.vm / microjs.context")


def pick(i, grid):
    pre(0 <= i < len(grid))
    for k in range(len(grid)):
        if i == k:
            return grid[k]
    raise AssertionError


def cap_memory():
    try:
        import resource
        soft, hard = resource.getrlimit(resource.RLIMIT_AS)
        want = 6 * 2 ** 30
        if soft == resource.RLIM_INFINITY or soft > want:
            resource.setrlimit(resource.RLIMIT_AS, (want, hard))
    except Exception:  # noqa: BLE001
        pass


def classify(src, run):
    """None when the outcome is allowed, else a description."""
    from microjs.errors import JSError, JSSyntaxError
    try:
        run()
        return None
    except JSSyntaxError as e:
        lines = src.split("\n")
        line, col = e.line, e.column
        if not (isinstance(line, int) and isinstance(col, int)):
            return "JSSyntaxError without a position"
        if not (1 <= line <= len(lines) + 1):
            return "JSSyntaxError line %r outside the source (%d lines)" % (line, len(lines))
        width = len(lines[line - 1]) if line <= len(lines) else 0
        if not (1 <= col <= width + 2):
            return "JSSyntaxError column %r outside line %r (length %d)" % (col, line, width)
        return None
    except JSError:
        return None
    except Exception as e:  # noqa: BLE001
        return "host exception %s: %s" % (type(e).__name__, str(e)[:120])


# ------------------------------------------------------------------------------------------- front end, symbolic text
CLASSES = [
    ("digit", lambda c: 48 <= c <= 57),
    ("ascii-letter", lambda c: (65 <= c <= 90) or (97 <= c <= 122) or c == 36 or c == 95),
    ("quote", lambda c: c == 34 or c == 39 or c == 96),
    ("slash-star", lambda c: c == 47 or c == 42),
    ("brackets", lambda c: c in (40, 41, 91, 93, 123, 125)),
    ("operators", lambda c: c in (43, 45, 37, 38, 124, 94, 60, 62, 61, 33, 126, 63, 58)),
    ("dot-comma-semicolon", lambda c: c in (46, 44, 59)),
    ("backslash-hash-at", lambda c: c in (92, 35, 64)),
    ("ascii-space", lambda c: c in (9, 10, 11, 12, 13, 32)),
    ("ascii-control", lambda c: c < 32 and c not in (9, 10, 11, 12, 13) or c == 127),
]
NON_ASCII = [0x80, 0xA0, 0xAA, 0xB2, 0xB5, 0xD7, 0x2B0, 0x300, 0x661, 0x1680, 0x2028, 0x2029, 0x200B, 0x200D, 0x2118, 0x3000, 0xD800, 0xDFFF,
             0xFEFF, 0xFF11, 0xFF41, 0xFFFF, 0x10000, 0x1D7D8, 0x1F600, 0x10FFFF]


def front(src):
    from microjs.parser import Parser
    from microjs.compiler import Compiler
    Compiler().compile(Parser(src).parse())


def make_front(n, cls, wide=False):
    """First character of class cls (cls None: a pinned non-ASCII code point); the other characters are any ASCII
    character (symbolic), or - wide - one of the pinned non-ASCII code points."""
    name, member = CLASSES[cls] if cls is not None else ("non-ascii", None)

    def front_case(c0, c1, c2):
        cs = [c0, c1, c2][:n]
        for c in (c0, c1, c2)[n:]:
            pre(c == 0)
        if cls is None:
            cs[0] = pick(c0, NON_ASCII)
        else:
            pre(0 <= c0 < 128)
            pre(member(c0))
        for i in range(1, n):
            if wide:
                cs[i] = pick(cs[i], NON_ASCII)
            else:
                pre(0 <= cs[i] < 128)
        src = ""
        for c in cs:
            src = src + chr(c)
        r = classify(src, lambda: front(src))
        cover("judged")
        if r is not None:
            return r
        return True
    front_case.__annotations__ = {"c0": int, "c1": int, "c2": int, "return": bool}
    return front_case


SPLICE_PROGRAMS = ["a=1", "f(x)", "'s'+1", "[1,2]", "x.y", "if(a)b", "/r/g", "({k:1})", "a?b:c", "x=>x", "for(;;){}", "try{}catch(e){}", "0x1f", "1.5e3",
                   "var v", "function f(){}", "a/*c*/b", "a//c\nb", "new F", "a++"]


def make_splice(prog, n, wide=False):
    def splice_case(g, c0, c1):
        gi = pick(g, list(range(len(prog) + 1)))
        if wide:
            c0 = pick(c0, NON_ASCII)
        else:
            pre(0 <= c0 < 128)
        ins = chr(c0)
        if n == 2:
            pre(0 <= c1 < 128)
            ins = ins + chr(c1)
        else:
            pre(c1 == 0)
        src = prog[:gi] + ins + prog[gi:]
        r = classify(src, lambda: front(src))
        cover("judged")
        if r is not None:
            return r
        return True
    splice_case.__annotations__ = {"g": int, "c0": int, "c1": int, "return": bool}
    return splice_case


def make_truncate(prog_name, src):
    """Every prefix and every one-character deletion of a corpus program (solver-indexed position)."""
    def truncate_case(i, mode):
        k = pick_range(i, len(src) + 1)
        m = pick(mode, ["prefix", "delete", "duplicate", "swap"])
        with NoTracing():
            if m == "prefix":
                text = src[:k]
            elif m == "delete":
                text = src[:k] + src[k + 1:]
            elif m == "duplicate":
                text = src[:k] + src[k:k + 1] + src[k:]
            else:
                text = src[:k] + src[k + 1:k + 2] + src[k:k + 1] + src[k + 2:]
            r = classify(text, lambda: front(text))
            cover("judged")
            if r is not None:
                return "%s at %d of %s: %s" % (m, k, prog_name, r)
        return True
    truncate_case.__annotations__ = {"i": int, "mode": int, "return": bool}
    return truncate_case


LONG_FORMS = [
    ("unicode-brace", lambda n: '"\\u{' + "F" * n + '}"'), ("unicode-brace-zero", lambda n: '"\\u{' + "0" * n + '41}"'),
    ("hex", lambda n: "0x" + "f" * n), ("decimal", lambda n: "1" + "0" * n), ("binary", lambda n: "0b" + "1" * n), ("octal", lambda n: "0o" + "7" * n),
    ("fraction", lambda n: "1." + "5" * n), ("small", lambda n: "." + "0" * n + "1"), ("exponent", lambda n: "1e" + "9" * n),
    ("neg-exponent", lambda n: "1e-" + "9" * n), ("minus", lambda n: "-" * n + "1"), ("not", lambda n: "!" * n + "1"),
    ("typeof", lambda n: "typeof " * n + "1"), ("sum", lambda n: "1" + "+1" * n), ("parens", lambda n: "(" * n + "1" + ")" * n),
    ("calls", lambda n: "f" + "()" * n), ("members", lambda n: "x" + ".y" * n), ("index", lambda n: "x" + "[0]" * n),
    ("arrows", lambda n: "x=>" * n + "1"), ("arrays", lambda n: "[" * n + "]" * n), ("blocks", lambda n: "{" * n + "}" * n),
    ("objects", lambda n: "x=" + "{a:" * n + "1" + "}" * n), ("conditional", lambda n: "a?" * n + "1" + ":1" * n),
    ("backslashes", lambda n: '"' + "\\\\" * n + '"'), ("flags", lambda n: "/a/" + "g" * n), ("regex-groups", lambda n: "/" + "(" * n + ")" * n + "/"),
    ("regex-class", lambda n: "/[" + "a-z" * n + "]/"), ("identifier", lambda n: "a" * n), ("vars", lambda n: "var " + ",".join("v%d" % i for i in range(n + 1))),
    ("new", lambda n: "new " * n + "X"), ("comma", lambda n: "1" + ",1" * n), ("string", lambda n: "'" + "x" * n + "'"),
    ("comment", lambda n: "/*" + "*" * n + "/ 1"), ("ifs", lambda n: "if(a)" * n + "b"), ("functions", lambda n: "function f(){" * n + "}" * n),
    ("eval-nest", lambda n: "eval(" * min(n, 60) + "1" + ")" * min(n, 60)), ("assign-chain", lambda n: "a=" * n + "1"),
    ("labels", lambda n: "".join("L%d:" % i for i in range(n)) + ";"), ("switch", lambda n: "switch(x){" + "case 1:" * n + "}"),
    ("try", lambda n: "try{" * n + "}catch(e){}" * n),
]
LONG_N = [1, 2, 5, 17, 30, 64, 100, 257, 400, 1000, 3000]


def long_case(f: int, k: int) -> bool:
    """Literal and nesting forms repeated n times (n solver-indexed): a value, a JSSyntaxError or a runtime JSError - nothing else."""
    name, make = pick(f, LONG_FORMS)
    n = pick(k, LONG_N)
    with NoTracing():
        src = make(n)
        r = classify(src, lambda: run_script(src))
        cover("judged")
        if r is not None:
            return "%s x %d: %s" % (name, n, r)
    return True


def targets_case(fi: int, ti: int) -> bool:
    """Assignment/update/loop forms with targets that are not references, also behind nested groups: never a host exception."""
    from . import C13
    forms = C13.TARGET_FORMS + ["x = ((%s) = 2);", "[(%s) = 1];", "y = [[0], (%s)++];", "f(((%s)) -= 1);", "((%s) = 1, 2);", "z = ((%s));"]
    form = pick(fi, forms)
    tgt = pick(ti, C13.LEAF_TARGETS + C13.REF_TARGETS)
    with NoTracing():
        src = "var a = {b: {c: 1}}, b = 0, c = 'c', f = function () { return {x: 1}; }, F = f, o = {}; " + (form % tgt)
        r = classify(src, lambda: run_script(src))
        cover("judged")
        if r is not None:
            return "%s -> %s" % (src, r)
    return True


def pick_range(i, n):
    pre(0 <= i < n)
    lo, hi = 0, n
    while hi - lo > 1:
        mid = (lo + hi) // 2
        if i < mid:
            hi = mid
        else:
            lo = mid
    return lo


# ------------------------------------------------------------------------------------------- runtime, API surface x argument grid
def run_script(src):
    from microjs import Context
    Context(time_limit=2.0).eval(src)


def call_sources(expr, a0, construct):
    """One-line scripts calling `expr` with a0 and every second (and a few third) arguments."""
    head = ("new " if construct else "") + expr
    out = [head + "()", "%s(%s)" % (head, a0)]
    for a1 in API.ARGS:
        out.append("%s(%s, %s)" % (head, a0, a1))
    for a1 in API.ARGS_SMALL:
        for a2 in API.ARGS_SMALL:
            out.append("%s(%s, %s, %s)" % (head, a0, a1, a2))
    return out


def make_global(expr):
    construct_too = expr[0].isupper() and "." not in expr

    def global_case(a):
        a0 = pick(a, API.ARGS)
        with NoTracing():
            cap_memory()
            for construct in ((False, True) if construct_too else (False,)):
                for src in call_sources(expr, a0, construct):
                    r = classify(src, lambda: run_script(src))
                    if r is not None:
                        return "%s -> %s" % (src, r)
            cover("judged")
        return True
    global_case.__annotations__ = {"a": int, "return": bool}
    return global_case


def make_method(kind, rexpr, name):
    def method_case(a):
        a0 = pick(a, API.ARGS)
        with NoTracing():
            cap_memory()
            acc = "R.%s" % name if not API._reserved(name) else "R['%s']" % name
            for src in call_sources(acc, a0, False):
                text = "var R = %s; %s" % (rexpr, src)
                r = classify(text, lambda: run_script(text))
                if r is not None:
                    return "%s -> %s" % (text, r)
            cover("judged")
        return True
    method_case.__annotations__ = {"a": int, "return": bool}
    return method_case


OPERATOR_FORMS = ["%s + %s", "%s - %s", "%s * %s", "%s / %s", "%s %% %s", "%s ** %s", "%s << %s", "%s >>> %s", "%s & %s", "%s < %s", "%s == %s",
                  "%s === %s", "%s in %s", "%s instanceof %s", "%s[%s]", "%s[%s] = 1", "delete %s[%s]", "%s(%s)", "new %s(%s)", "%s.p = %s",
                  "var q = %s; q += %s", "var q = %s; q[%s]++", "for (var k in %s) { %s; }", "for (var k of %s) { %s; }", "typeof %s + -%s",
                  "!%s && ~%s", "%s ? 1 : %s", "[%s, ...[]].length + %s", "throw %s, %s", "void %s, %s++"]


def make_operator(form):
    def operator_case(a):
        a0 = pick(a, API.ARGS)
        with NoTracing():
            for a1 in API.ARGS:
                src = form % ("(" + a0 + ")", "(" + a1 + ")")
                r = classify(src, lambda: run_script(src))
                if r is not None:
                    return "%s -> %s" % (src, r)
            cover("judged")
        return True
    operator_case.__annotations__ = {"a": int, "return": bool}
    return operator_case


def harnesses():
    hs = []
    classes = list(enumerate(CLASSES)) + [(None, ("non-ascii", None))]
    for ci, (cname, _m) in classes:
        hs.append(Harness(id="C04.front.1.%s" % cname, fn=make_front(1, ci), group="front", functions=FNS, per_path=60, budget=300,
                          require=("judged",), bounds=["source = one character: any ASCII character of class %s (symbolic) / each of %d "
                                                        "pinned non-ASCII code points" % (cname, len(NON_ASCII))]))
        hs.append(Harness(id="C04.front.2.%s" % cname, fn=make_front(2, ci), group="front", functions=FNS, per_path=60, budget=600,
                          budget_thorough=1500, require=("judged",),
                          tier="quick" if cname in ("digit", "quote", "slash-star", "dot-comma-semicolon", "backslash-hash-at", "brackets") else "thorough",
                          bounds=["source = two characters, the first of class %s, the second any ASCII character (symbolic)" % cname]))
        hs.append(Harness(id="C04.front.2w.%s" % cname, fn=make_front(2, ci, True), group="front", functions=FNS, per_path=60, budget=600,
                          budget_thorough=1500, require=("judged",),
                          tier="quick" if cname in ("digit", "quote", "slash-star", "dot-comma-semicolon", "ascii-space", "non-ascii") else "thorough",
                          bounds=["source = two characters, the first of class %s, the second one of %d pinned non-ASCII code points" % (
                              cname, len(NON_ASCII))]))
        hs.append(Harness(id="C04.front.3.%s" % cname, fn=make_front(3, ci), group="front", functions=FNS, per_path=60, budget=1500,
                          tier="thorough", require=("judged",), must_exhaust=False,
                          bounds=["source = three characters, the first of class %s, the others any ASCII character (bug hunting)" % cname]))
    for i, prog in enumerate(SPLICE_PROGRAMS):
        hs.append(Harness(id="C04.splice.1.p%02d" % i, fn=make_splice(prog, 1), group="splice", functions=FNS, per_path=60, budget=600,
                          budget_thorough=2000, tier="quick" if i in (0, 2, 6) else "thorough", require=("judged",),
                          bounds=["one symbolic ASCII character spliced into every position of %r" % prog]))
        hs.append(Harness(id="C04.splice.1w.p%02d" % i, fn=make_splice(prog, 1, True), group="splice", functions=FNS, per_path=60, budget=600,
                          require=("judged",),
                          bounds=["each of %d pinned non-ASCII code points spliced into every position of %r" % (len(NON_ASCII), prog)]))
        hs.append(Harness(id="C04.splice.2.p%02d" % i, fn=make_splice(prog, 2), group="splice", functions=FNS, per_path=60, budget=1200,
                          tier="thorough", require=("judged",), must_exhaust=False,
                          bounds=["two symbolic ASCII characters spliced into every position of %r (bug hunting)" % prog]))
    from ..skel import corpus as CORPUS
    progs = [("snip%02d" % i, s) for i, s in enumerate(CORPUS.SNIPPETS)]
    for n, s in CORPUS.repo_files(max_bytes=4000):
        progs.append(("repo." + n.replace("/", ".").replace(".js", ""), s))
    for n, s in progs:
        hs.append(Harness(id="C04.mutate.%s" % n, fn=make_truncate(n, s), group="mutate", functions=FNS, per_path=20, budget=900,
                          tier="quick" if n.startswith("snip") and int(n[4:]) % 3 == 0 else "thorough", require=("judged",),
                          bounds=["every prefix, one-character deletion, duplication and transposition of corpus program %s" % n]))
    with NoTracing():
        surf = API.surface()
    for expr in surf["globals"]:
        if expr in ("eval", "Function", "console.log", "Math.random", "Date.now"):
            pass
        hs.append(Harness(id="C04.api.%s" % expr, fn=make_global(expr), group="api.global", functions=FNS, per_path=120, budget=900,
                          require=("judged",),
                          bounds=["%s called%s with 0-3 arguments from the adversarial grid (%d x %d, third from %d)" % (
                              expr, " and constructed" if expr[0].isupper() and "." not in expr else "", len(API.ARGS), len(API.ARGS),
                              len(API.ARGS_SMALL))]))
    for kind, rexpr in API.RECEIVERS:
        for name in surf["methods"].get(kind, []):
            hs.append(Harness(id="C04.method.%s.%s" % (kind, name), fn=make_method(kind, rexpr, name), group="api.method", functions=FNS,
                              per_path=120, budget=900, require=("judged",),
                              tier="quick" if kind in ("string", "int", "float", "array", "object", "function", "regex", "uint8", "float64",
                                                       "buffer", "error", "arguments", "native", "bound") else "thorough",
                              bounds=["(%s).%s called with 0-3 arguments from the adversarial grid" % (rexpr, name)]))
    hs.append(Harness(id="C04.long", fn=long_case, group="front", functions=FNS, per_path=120, budget=900, require=("judged",),
                      bounds=["%d literal/nesting forms (escapes, number bases, operator chains, brackets, calls, regex groups ...) repeated "
                              "n times, n in %s, through Context.eval (nesting beyond the host stack must be JSSyntaxError/MemoryLimitError)"
                              % (len(LONG_FORMS), LONG_N)]))
    hs.append(Harness(id="C04.targets", fn=targets_case, group="front", functions=FNS, per_path=60, budget=600, require=("judged",),
                      bounds=["21 assignment/update/loop statement forms (incl. targets behind nested groups and arrays) x 35 reference and "
                              "non-reference target expressions: a value, JSSyntaxError or runtime JSError"]))
    for i, form in enumerate(OPERATOR_FORMS):
        hs.append(Harness(id="C04.operator.%02d" % i, fn=make_operator(form), group="api.operator", functions=FNS, per_path=120, budget=600,
                          require=("judged",), bounds=["%r with both operands from the adversarial grid" % form]))
    return hs
