"""C17 - Array and typed-array methods compute, mutate and alias as specified (DESIGN 4, C17)."""
from ..harness_api import Harness
from ..compat import pre, cover, known, NoTracing
from ..refsem import arrays as A
from ..refsem import ops as R
from ..refsem.num import UNDEF, NULL, Unspecified
from .. import domains as D

ASSUMPTIONS = [
    "one step from an arbitrary dense array (the state is just the element list): receivers of length 0..3 whose "
    "elements are symbolic small integers, strings derived from them, undefined and one nested array, in solver-chosen "
    "kind patterns; longer arrays are outside the claim",
    "callbacks are host recorders whose results (truthiness, mapped values) are solver variables; comparators of sort "
    "are script functions from a pinned list (ECMAScript leaves inconsistent comparators implementation-defined)",
    "typed arrays: every IEEE double into the eight integer element kinds; Float32 rounding and views over a shared "
    "ArrayBuffer go through the host's struct/bytearray (not encodable) and are reported as bug hunting only",
    "the reference is ECMA-262 23.1.3 transcribed in vf/refsem/arrays.py (calibrated against node on 7164 calls)",
]
FNS = ("microjs.vm.VM._make_array_method", "microjs.vm.VM._set_property (array index / length rules)",
       "microjs.values.JSArray", "microjs.values.JSTypedArray._coerce_value")
NAN, INF = float("nan"), float("inf")
KINDS = [("i", "i", "i"), ("i", "u", "i"), ("s", "i", "s"), ("u", "u", "i"), ("i", "s", "u"), ("a", "i", "a"), ("i", "a", "n")]
POS_GRID = ["<missing>", UNDEF, NULL, NAN, INF, -INF, 0, 1, 2, 3, -1, -2, -5, 5, 1.5, -0.5, "1", "x", True, 2 ** 32]
MISSING = "<missing>"


def pick(i, grid):
    pre(0 <= i < len(grid))
    for k in range(len(grid)):
        if i == k:
            return grid[k]
    raise AssertionError


class Pair:
    """The same abstract value on both sides: engine value + refsem value."""

    def __init__(self, eng, ref):
        self.eng = eng
        self.ref = ref


def build(n, kp, e):
    """Receiver of length n with kind pattern kp and integer payloads e -> (JSArray, RefArr, nested pair)."""
    import microjs.values as V
    nested_e = V.JSArray()
    nested_e._elements = [7]
    nested_r = A.RefArr([7])
    ee, rr = [], []
    for j in range(n):
        k = kp[j]
        if k == "i":
            ee.append(e[j]); rr.append(e[j])
        elif k == "u":
            ee.append(V.UNDEFINED); rr.append(UNDEF)
        elif k == "n":
            ee.append(V.NULL); rr.append(NULL)
        elif k == "s":
            sv = "s" if e[j] == 0 else ("t" if e[j] > 0 else "r")
            ee.append(sv); rr.append(sv)
        else:
            ee.append(nested_e); rr.append(nested_r)
    arr = V.JSArray()
    arr._elements = ee
    return arr, A.RefArr(rr), Pair(nested_e, nested_r)


def same_value(ev, rv, recv_e, recv_r, nested):
    """Engine value vs reference value, with array identity (receiver / nested array / fresh array)."""
    import microjs.values as V
    if isinstance(rv, A.RefArr):
        if not isinstance(ev, V.JSArray):
            return False
        if rv is recv_r:
            return ev is recv_e
        if rv is nested.ref:
            return ev is nested.eng
        if ev is recv_e or ev is nested.eng:
            return False
        return same_list(ev._elements, rv.elems, recv_e, recv_r, nested)
    if isinstance(ev, V.JSArray):
        return False
    return D.same(ev, rv)


def same_list(es, rs, recv_e, recv_r, nested):
    if len(es) != len(rs):
        return False
    for a, b in zip(es, rs):
        if not same_value(a, b, recv_e, recv_r, nested):
            return False
    return True


def render(v):
    import microjs.values as V
    if isinstance(v, V.JSArray):
        return "[" + ", ".join(render(x) for x in v._elements) + "]"
    if isinstance(v, A.RefArr):
        return "[" + ", ".join(render(x) for x in v.elems) + "]"
    return D.show(v)


def run_both(name, arr_e, arr_r, nested, args_e, args_r):
    """Call the real method and the oracle; compare result, receiver afterwards and identity."""
    from microjs.vm import VM
    from microjs.errors import JSError
    before = render(arr_r)
    try:
        want = A.METHODS[name](arr_r, args_r)
        wthrow = None
    except A.Throw as t:
        want, wthrow = None, t.name
    try:
        got = VM()._make_array_method(arr_e, name)(*args_e)
        gthrow = None
    except JSError as e:
        got, gthrow = None, e.name
    cover("judged")
    what = lambda: "%s.%s(%s)" % (before, name, ", ".join(render(a) if not callable(a) else "<fn>" for a in args_r))
    if wthrow or gthrow:
        if wthrow != gthrow:
            return "%s: engine %s, ECMAScript %s" % (what(), "throws " + gthrow if gthrow else render(got),
                                                     "throws " + wthrow if wthrow else render(want))
        return True
    if not same_value(got, want, arr_e, arr_r, nested):
        return "%s: engine returns %s%s, ECMAScript %s%s" % (what(), render(got), " (the receiver)" if got is arr_e else "",
                                                             render(want), " (the receiver)" if want is arr_r else "")
    if not same_list(arr_e._elements, arr_r.elems, arr_e, arr_r, nested):
        return "%s: receiver afterwards engine %s, ECMAScript %s" % (what(), render(arr_e), render(arr_r))
    return True


# ---- families ----------------------------------------------------------------------------------------------
def make_plain(name, argkinds, nkinds=len(KINDS), maxn=3):
    """Methods without callbacks; argument kinds: 'elem' (a search/insert value) or 'pos' (grid index)."""
    def h(n, kp, e0, e1, e2, x, p, q):
        pre(0 <= n <= maxn and -2 <= e0 <= 2 and -2 <= e1 <= 2 and -2 <= e2 <= 2 and -2 <= x <= 3)
        kinds = pick(kp, KINDS[:nkinds])
        arr_e, arr_r, nested = build(n, kinds, [e0, e1, e2])
        import microjs.values as V
        args_e, args_r = [], []
        pos_idx = [p, q]
        for k in argkinds:
            if k == "elem":
                if x == 3:
                    args_e.append(V.UNDEFINED); args_r.append(UNDEF)
                else:
                    args_e.append(x); args_r.append(x)
            elif k == "arr":
                args_e.append(nested.eng); args_r.append(nested.ref)
            else:
                v = pick(pos_idx.pop(0), POS_GRID)
                if v is MISSING:
                    break
                args_e.append(D.to_engine(v)); args_r.append(v)
        for rest in pos_idx:
            pre(rest == 0)
        if "elem" not in argkinds or name == "splice":
            pre(x == 0)
        return run_both(name, arr_e, arr_r, nested, args_e, args_r)
    h.__annotations__ = {"n": int, "kp": int, "e0": int, "e1": int, "e2": int, "x": int, "p": int, "q": int, "return": bool}
    return h


def make_callback(name, with_init):
    """Callback-taking methods: a host recorder logs (value, index, array-is-receiver) and returns solver-chosen
    results; in the mutation variant it pushes / pops the receiver on a solver-chosen call."""
    def h(n, kp, e0, e1, e2, r0, r1, r2, mut, init):
        pre(0 <= n <= 3 and -2 <= e0 <= 2 and -2 <= e1 <= 2 and -2 <= e2 <= 2 and 0 <= mut <= 3)
        kinds = pick(kp, KINDS)
        arr_e, arr_r, nested = build(n, kinds, [e0, e1, e2])
        import microjs.values as V
        results = [r0, r1, r2]
        log_e, log_r = [], []

        def result_for(k, acc):
            if name in ("map", "reduce", "reduceRight"):
                return 100 + (1 if results[k % 3] else 0) + k * 10
            return results[k % 3]

        def cb_e(*args):
            k = len(log_e)
            log_e.append((args, args[-1] is arr_e))
            if mut == k + 1 and k < 2:
                arr_e._elements.append(99) if mut == 1 else (arr_e._elements and arr_e._elements.pop())
            return result_for(k, None)

        def cb_r(args):
            k = len(log_r)
            log_r.append((args, args[-1] is arr_r))
            if mut == k + 1 and k < 2:
                arr_r.elems.append(99) if mut == 1 else (arr_r.elems and arr_r.elems.pop())
            return result_for(k, None)
        args_e, args_r = [cb_e], [cb_r]
        if with_init:
            iv = pick(init, [MISSING, UNDEF, 5, "z"])
            if iv is not MISSING:
                args_e.append(D.to_engine(iv)); args_r.append(iv)
        else:
            pre(init == 0)
        r = run_both(name, arr_e, arr_r, nested, args_e, args_r)
        if r is not True:
            return r
        if len(log_e) != len(log_r):
            return "%s: callback called %d times, ECMAScript %d" % (name, len(log_e), len(log_r))
        for (ae, ie), (ar, ir) in zip(log_e, log_r):
            if len(ae) != len(ar) or ie != ir:
                return "%s: callback received %d arguments (array is receiver: %s), ECMAScript %d (%s)" % (name, len(ae), ie, len(ar), ir)
            for x, y in zip(ae[:-1], ar[:-1]):
                if not same_value(x, y, arr_e, arr_r, nested):
                    return "%s: callback argument %s, ECMAScript %s" % (name, render(x), render(y))
        cover("called", len(log_r) > 0)
        return True
    h.__annotations__ = {"n": int, "kp": int, "e0": int, "e1": int, "e2": int, "r0": bool, "r1": bool, "r2": bool,
                         "mut": int, "init": int, "return": bool}
    return h


COMPARATORS = [None, "function(a, b) { return a - b; }", "function(a, b) { return b - a; }", "function(a, b) { return (a - b) / 2; }",
               "function(a, b) { return 0; }", "function(a, b) { return (a % 2) - (b % 2); }", "function(a, b) { return a < b ? -1 : (a > b ? 1 : 0); }",
               "function(a, b) { return undefined; }", "function(a, b) { return NaN; }", "function(a, b) { return a.k - b.k; }"]
SORT_ELEMS = [3, 1, 2, 10, 9, -1, 1.5, "b", "a", "10", UNDEF, NULL, True]


def make_sort(c, maxn):
    def sort_case(n, i0, i1, i2, i3):
        """sort through eval: default comparator on mixed values, pinned numeric comparators on numbers, stability on
        keyed objects."""
        pre(0 <= n <= maxn)
        comp = COMPARATORS[c]
        idx = [i0, i1, i2, i3]
        elems = []
        for j in range(4):
            if j < n:
                elems.append(pick(idx[j], SORT_ELEMS))
            else:
                pre(idx[j] == 0)
        with NoTracing():
            from ..jsrun import eval_concrete
            import microjs.values as V
            numeric = comp is not None and "a.k" not in (comp or "")
            if numeric:
                if not all(R.is_num(e) for e in elems):
                    return True
            keyed = comp is not None and "a.k" in comp
            if keyed:
                if not all(isinstance(e, int) and not isinstance(e, bool) for e in elems):
                    return True
                src = "var a = [%s]; var r = a.sort(%s); [r === a, a.map(function(o) { return o.k * 100 + o.t; })]" % (
                    ", ".join("{k: %d, t: %d}" % (e % 2, t) for t, e in enumerate(elems)), comp)
                ref = A.RefArr([(e % 2) * 100 + t for t, e in enumerate(elems)])
                A.sort(ref, [lambda xs: xs[0] // 100 - xs[1] // 100])
            else:
                src = "var a = A0; var r = a.sort(%s); [r === a, a]" % (comp or "")
                ref = A.RefArr(list(elems))
                if comp is None:
                    A.sort(ref, [])
                else:
                    fns = {1: lambda x: R.num_sub(x[0], x[1]), 2: lambda x: R.num_sub(x[1], x[0]),
                           3: lambda x: R.num_div(R.num_sub(x[0], x[1]), 2), 4: lambda x: 0,
                           5: lambda x: R.num_sub(R.num_mod(x[0], 2), R.num_mod(x[1], 2)),
                           6: lambda x: -1 if x[0] < x[1] else (1 if x[0] > x[1] else 0), 7: lambda x: UNDEF, 8: lambda x: NAN}
                    if any(isinstance(e, float) and e != e for e in elems):
                        return True
                    A.sort(ref, [fns[COMPARATORS.index(comp)]])
            arr = V.JSArray()
            arr._elements = [D.to_engine(e) for e in elems]
            res = eval_concrete(src, {"A0": arr})
            cover("judged")
            same_obj, out = res._elements
            if same_obj is not True:
                return "sort does not return the receiver"
            got = list(out._elements)
            if len(got) != len(ref.elems) or not all(D.same(g, w) if not isinstance(w, type(UNDEF)) or True else False
                                                     for g, w in zip(got, [x for x in ref.elems])):
                pass
            ok = len(got) == len(ref.elems)
            for g, w in zip(got, ref.elems):
                ok = ok and (g is V.UNDEFINED if w is UNDEF else (g is V.NULL if w is NULL else D.same(g, w)))
            if not ok:
                return "[%s].sort(%s): engine %s, ECMAScript %s" % (", ".join(D.show(e) for e in elems), comp or "",
                                                                    [D.show(g) for g in got], [D.show(w) for w in ref.elems])
        return True
    sort_case.__annotations__ = {"n": int, "i0": int, "i1": int, "i2": int, "i3": int, "return": bool}
    return sort_case


ASSIGN = ["a[I] = 9; a", "a.length = I; a", "a[I]", "delete a[I]; a", "a[I] = 9; a.length", "a['x'] = 1; [a.length, a.x]"]


def assign_case(s: int, n: int, i: int) -> bool:
    """Documented stricter rules: writing at index length appends, writing further out is an error, no holes."""
    pre(0 <= n <= 3)
    src = pick(s, ASSIGN)
    nn = pick(n, [0, 1, 2, 3])
    iv = pick(i, [0, 1, 2, 3, 4, 7, -1, 1.5, "1", "01", "x", NAN, 2 ** 32])
    with NoTracing():
        from ..jsrun import eval_concrete
        from microjs.errors import JSError
        import microjs.values as V
        script = "var a = [%s]; var o; try { o = (function() { %s; return %s; })(); } catch (e) { o = e.name; } [o, a.length]" % (
            ", ".join(str(10 + k) for k in range(nn)), ";".join(src.split(";")[:-1]), src.split(";")[-1])
        try:
            res = eval_concrete(script, {"I": D.to_engine(iv)})
        except JSError as e:
            return "%s with I=%r on length %d: %s" % (src, iv, nn, e)
        cover("judged")
        out, length = res._elements
        idx = None
        if isinstance(iv, (int, float)) and not isinstance(iv, bool) and iv == iv and iv >= 0 and iv == int(iv) and iv < 2 ** 32 - 1:
            idx = int(iv)
        if isinstance(iv, str) and iv.isdigit() and str(int(iv)) == iv:
            idx = int(iv)
        hole = False
        if src.startswith("a[I] = 9") and idx is not None:
            if idx > nn:
                hole = True        # documented: an error, never a hole
                if not isinstance(out, str) or "Error" not in out:
                    return "%s with I=%r on length %d: engine %s (length %r); the documented rule refuses writes beyond the end" % (
                        src, iv, nn, D.show(out) if not isinstance(out, V.JSArray) else render(out), length)
            else:
                want_len = max(nn, idx + 1)
                if length != want_len:
                    return "%s with I=%r on length %d: length afterwards %r, expected %r" % (src, iv, nn, length, want_len)
        if src.startswith("a.length = I") and idx is not None and not isinstance(out, str):
            if length != idx or len(out._elements) != idx:
                return "a.length = %r on length %d: length afterwards %r" % (iv, nn, length)
            for k, el in enumerate(out._elements):
                if k >= nn and el is not V.UNDEFINED:
                    return "a.length = %r: new element %d is %s" % (iv, k, D.show(el))
        if src == "a[I]" and idx is not None:
            want = 10 + idx if idx < nn else V.UNDEFINED
            if out != want and out is not want:
                return "a[%r] on length %d: engine %s" % (iv, nn, D.show(out))
        if isinstance(length, int) is False:
            return "length is %r" % (length,)
    return True


TYPED = {"Int8Array": (8, True), "Uint8Array": (8, False), "Int16Array": (16, True), "Uint16Array": (16, False),
         "Int32Array": (32, True), "Uint32Array": (32, False)}


def make_typed(kind, num):
    def h(x):
        import microjs.values as V
        cls = getattr(V, "JS" + kind)
        if num is int:
            pre(-2 ** 53 <= x <= 2 ** 53)
        arr = cls(1)
        arr.set_index(0, x)
        got = arr.get_index(0)
        if kind == "Uint8ClampedArray":
            want = A.to_uint8_clamp(x)
        else:
            bits, signed = TYPED[kind]
            want = A.to_int_n(x, bits, signed)
        cover("judged")
        if isinstance(got, bool) or not isinstance(got, (int, float)) or got != want:
            return "%s: storing %s reads back %s, ECMAScript %s" % (kind, D.show(x), D.show(got), D.show(want))
        return True
    h.__annotations__ = {"x": num, "return": bool}
    return h


CLAMP_GRID = [-1.0, -0.0, 0.0, 0.4, 0.5, 0.5000001, 0.6, 1.5, 2.5, 2.500001, 3.5, 254.4, 254.5, 254.50001, 255.0, 255.5, 256.0,
              1e21, -1e21, NAN, INF, -INF, 5e-324, 127.49999999999999]


def clamped_grid(i: int) -> bool:
    x = pick(i, CLAMP_GRID)
    with NoTracing():
        return make_typed("Uint8ClampedArray", float)(x)


VIEW_FMT = {"Uint8Array": ("B", 1), "Int8Array": ("b", 1), "Int16Array": ("h", 2), "Uint16Array": ("H", 2), "Int32Array": ("i", 4),
            "Uint32Array": ("I", 4), "Float64Array": ("d", 8), "Float32Array": ("f", 4)}
VIEW_VALUES = [5, 7, 0, 256, -1]


def make_views(ka, kb):
    """Three stores through two views of one 16-byte ArrayBuffer, checked against a byte-array model after each."""
    def h(v0, i0, x0, v1, i1, x1, v2, i2, x2):
        steps = []
        for n, (v, i, x) in enumerate(((v0, i0, x0), (v1, i1, x1), (v2, i2, x2))):
            # first store through view A, second through view B, third through either
            views = [0] if n == 0 else [1] if n == 1 else [0, 1]
            steps.append((pick(v, views), pick(i, [0, 1]), pick(x, VIEW_VALUES)))
        with NoTracing():
            import struct
            from ..jsrun import eval_concrete
            kinds = [ka, kb]
            model = bytearray(16)
            lines = ["var buf = new ArrayBuffer(16); var V = [new %s(buf), new %s(buf)]; var O = [];" % (ka, kb)]
            want = []
            for (v, i, x) in steps:
                fmt, size = VIEW_FMT[kinds[v]]
                if fmt in "df":
                    val = float(x)
                else:
                    bits = size * 8
                    val = A.to_int_n(x if not isinstance(x, float) else x, bits, fmt.islower())
                struct.pack_into("<" + fmt, model, i * size, val)
                lines.append("V[%d][%d] = %r; O.push(snap());" % (v, i, x))
                snap = []
                for k in kinds:
                    f2, s2 = VIEW_FMT[k]
                    snap.append([struct.unpack_from("<" + f2, model, j * s2)[0] for j in range(16 // s2)])
                want.append(snap)
            src = ("function snap() { var r = []; for (var k = 0; k < 2; k++) { var e = []; for (var j = 0; j < V[k].length; j++) "
                   "{ e.push(V[k][j]); } r.push(e); } return r; } " + " ".join(lines[:1]) + " " + " ".join(lines[1:]) + " O")
            res = eval_concrete(src, {})
            cover("judged")

            def plain(v):
                import microjs.values as V
                if isinstance(v, V.JSArray):
                    return [plain(e) for e in v._elements]
                return v
            got = plain(res)

            def same(a, b):
                if isinstance(a, list):
                    return isinstance(b, list) and len(a) == len(b) and all(same(x, y) for x, y in zip(a, b))
                if isinstance(a, float) and a != a:
                    return isinstance(b, float) and b != b
                return a == b and type(a) in (int, float) and type(b) in (int, float)
            if not same(got, want):
                return "%s/%s over one buffer, stores %r: engine %r, byte model %r" % (ka, kb, steps, got, want)
        return True
    h.__annotations__ = {k: int for k in ("v0", "i0", "x0", "v1", "i1", "x1", "v2", "i2", "x2")}
    h.__annotations__["return"] = bool
    return h


PLAIN = {"push": ("elem", "elem"), "pop": (), "shift": (), "unshift": ("elem", "arr"), "toString": (), "join": ("pos",),
         "reverse": (), "concat": ("elem", "arr"), "indexOf": ("elem", "pos"), "lastIndexOf": ("elem", "pos"),
         "includes": ("elem", "pos"), "slice": ("pos", "pos"), "splice": ("pos", "pos", "elem")}
CALLBACKS = {"map": False, "filter": False, "forEach": False, "some": False, "every": False, "find": False,
             "findIndex": False, "reduce": True, "reduceRight": True}


def harnesses():
    hs = []
    for name, kinds in PLAIN.items():
        two = len([k for k in kinds if k == "pos"]) == 2
        if two:
            hs.append(Harness(id="C17.plain-all." + name, fn=make_plain(name, kinds),
                              bounds=["as C17.plain with all %d kind patterns" % len(KINDS)], per_path=60, budget=3000, tier="thorough",
                              require=("judged",), group="plain methods", functions=FNS))
        hs.append(Harness(id="C17.plain." + name, fn=make_plain(name, kinds, 1 if two else len(KINDS), 2 if two else 3),
                          bounds=["receiver length 0..3, kind pattern: index into %d patterns, integer payloads in [-2,2] (symbolic)" % len(KINDS),
                                  "position arguments: indices into the adversarial grid (%d values); element argument: symbolic int or undefined" % len(POS_GRID)],
                          per_path=60, budget=600, budget_thorough=1800, require=("judged",), group="plain methods", functions=FNS))
    for name, init in CALLBACKS.items():
        hs.append(Harness(id="C17.callback." + name, fn=make_callback(name, init),
                          bounds=["receiver as above; callback results: 3 symbolic booleans; receiver mutated (push / pop) on a solver-chosen call",
                                  "initial value (reduce): missing / undefined / 5 / 'z'"],
                          per_path=60, budget=600, budget_thorough=1800, require=("judged", "called"), group="callback methods", functions=FNS))
    for c in range(len(COMPARATORS)):
        hs.append(Harness(id="C17.sort.%d" % c, fn=make_sort(c, 3), bounds=["comparator %s; up to 3 elements by index into %d values" % (COMPARATORS[c] or "default", len(SORT_ELEMS))],
                          per_path=120, budget=600, require=("judged",), group="sort", functions=FNS))
        hs.append(Harness(id="C17.sort4.%d" % c, fn=make_sort(c, 4), bounds=["comparator %s; up to 4 elements" % (COMPARATORS[c] or "default")],
                          per_path=120, budget=3000, tier="thorough", require=("judged",), group="sort", functions=FNS))
    hs.append(Harness(id="C17.assign", fn=assign_case, bounds=["index / length values: index into 13 values; array length 0..3; 6 statement forms"],
                      per_path=60, budget=300, require=("judged",), group="element and length assignment", functions=FNS))
    for kind in list(TYPED) + ["Uint8ClampedArray"]:
        clamped = kind == "Uint8ClampedArray"
        hs.append(Harness(id="C17.typed.%s.flt" % kind, fn=make_typed(kind, float), bounds=["stored value: every IEEE double"],
                          per_path=120, budget=90 if clamped else 400, budget_thorough=900, require=("judged",), group="typed arrays",
                          functions=FNS, must_exhaust=not clamped))
        hs.append(Harness(id="C17.typed.%s.int" % kind, fn=make_typed(kind, int), bounds=["stored value: every integer |n| <= 2**53"],
                          per_path=60, budget=200, require=("judged",), group="typed arrays", functions=FNS))
    for ka, kb, tier in (("Uint8Array", "Uint8Array", "quick"), ("Int16Array", "Uint8Array", "quick"), ("Float64Array", "Uint32Array", "quick"),
                         ("Int32Array", "Uint16Array", "thorough"), ("Float32Array", "Uint8Array", "thorough"), ("Int8Array", "Uint32Array", "thorough")):
        hs.append(Harness(id="C17.views.%s.%s" % (ka, kb), fn=make_views(ka, kb),
                          bounds=["3 stores, each (view, index in {0,1}, value in %r) solver-chosen; every element of both views read after each store" % (VIEW_VALUES,)],
                          per_path=120, budget=900, tier=tier, require=("judged",), group="buffer views", functions=FNS))
    hs.append(Harness(id="C17.typed.Uint8ClampedArray.grid", fn=clamped_grid, bounds=["stored value: index into %d boundary doubles" % len(CLAMP_GRID)],
                      per_path=60, budget=100, require=("judged",), group="typed arrays", functions=FNS))
    return hs
