"""C05 - compiled control flow and closures mean what the source says (DESIGN 4, C05)."""
from ..harness_api import Harness
from ..compat import pre, cover, known
from ..skel import stmts as S
from ..diffrun import compare

ASSUMPTIONS = [
    "programs are the skeleton families of vf/skel/stmts.py (loop kind x exit kind x enclosing construct x "
    "expression context, closure shapes); anything outside them is outside the claim",
    "the data steering each program (loop bound N <= 3, exit selectors C0..C2 in [-1, 3], closure call sequence "
    "K0..K2) is symbolic and decided by the solver",
    "the reference is the definitional interpreter vf/refsem/interp.py run on the AST of the engine's own parser",
]

FNS = ("microjs.compiler.Compiler.compile (concrete source, untraced)", "microjs.vm.VM.run", "microjs.vm.VM._execute",
       "microjs.vm.VM._execute_opcode", "microjs.vm.VM._invoke_js_function", "microjs.vm.VM._call_callback")


def make_ctl(src):
    def h(N, C0, C1, C2):
        pre(0 <= N <= 3 and -1 <= C0 <= 3 and -1 <= C1 <= 3 and -1 <= C2 <= 3)
        return compare(src, {"N": N, "C0": C0, "C1": C1, "C2": C2})
    h.__annotations__ = {"N": int, "C0": int, "C1": int, "C2": int, "return": bool}
    return h


def make_closure(src):
    def h(N, C0, C1, K0, K1, K2):
        pre(0 <= N <= 3 and 0 <= C0 <= 3 and 0 <= C1 <= 3 and 0 <= K0 <= 3 and 0 <= K1 <= 3 and 0 <= K2 <= 3)
        return compare(src, {"N": N, "C0": C0, "C1": C1, "K0": K0, "K1": K1, "K2": K2})
    h.__annotations__ = {"N": int, "C0": int, "C1": int, "K0": int, "K1": int, "K2": int, "return": bool}
    return h


def harnesses():
    hs = []
    for pid, src in S.programs():
        hs.append(Harness(id="C05.ctl." + pid, fn=make_ctl(src),
                          bounds=["N in [0,3], C0..C2 in [-1,3] (symbolic)", "program: " + pid],
                          per_path=30, budget=200, budget_thorough=400, require=("judged",), group="control flow",
                          functions=FNS))
    for pid, src in S.closure_programs():
        hs.append(Harness(id="C05." + pid, fn=make_closure(src),
                          bounds=["N, C0, C1 in [0,3], closure call sequence K0..K2 in [0,3] (symbolic)", "program: " + pid],
                          per_path=30, budget=300, budget_thorough=600, require=("judged",), group="closures",
                          functions=FNS))
    return hs
