"""C12 - a context keeps its own state: persistent, isolated, usable after errors (DESIGN 4, C12)."""
from ..harness_api import Harness
from ..compat import pre, cover, NoTracing
from ..jsrun import new_context, compile_js, run_compiled

ASSUMPTIONS = [
    "histories of <= 2 (quick) / 3 (thorough) operations over two contexts with different limits, each operation a solver-chosen "
    "index into the table OPS, on a solver-chosen context and name, with a symbolic integer payload; every operation goes through "
    "the public Context.eval/set/get; the observations after each step are read by one pre-compiled script per context",
    "clock stub: microjs.vm.time / microjs.context.time are replaced by a clock that stands still except during the 'loop forever' "
    "operation, where every reading is 10 s later than the one before (the first poll is past the deadline)",
    "histories longer than the bound are outside the claim (no one-step invariant over an arbitrary global object graph is attempted)",
]
FNS = ("microjs.context.Context.eval", "microjs.context.Context.set", "microjs.context.Context.get", "microjs.context.Context._run_nested",
       "microjs.vm.VM.run", "microjs.vm.VM._check_limits")

NAMES = ["x", "y", "Math"]
OPS = ("var", "function", "assign", "builtin-prop", "object-proto", "math-prop", "throw", "syntax-error", "loop-forever", "recurse-forever",
       "indirect-eval", "new-function", "set", "get", "type-error", "nested-eval-throw", "regex-then-throw", "callback-throw",
       "loop-in-try", "recurse-in-try", "all-builtins")
ERROR_OPS = ("throw", "syntax-error", "loop-forever", "recurse-forever", "type-error", "nested-eval-throw", "regex-then-throw", "callback-throw",
             "loop-in-try", "recurse-in-try")


def builtin_objects():
    """Names of the global built-in objects of a fresh context (regenerated from the engine at run time)."""
    if "names" not in _BUILTINS:
        import re
        import microjs.values as V
        from microjs import Context
        g = Context()._globals
        _BUILTINS["names"] = sorted(k for k, v in g.items() if isinstance(v, (V.JSObject, V.JSFunction)) and re.fullmatch(r"[A-Za-z_$][A-Za-z0-9_$]*", k)
                                    and k != "Math")
    return _BUILTINS["names"]


_BUILTINS = {}

OBSERVE = ("[typeof x === 'undefined' ? 'U' : (typeof x === 'function' ? ['fn', x()] : x), "
           "typeof y === 'undefined' ? 'U' : (typeof y === 'function' ? ['fn', y()] : y), "
           "typeof Math === 'object' ? 'M' : (typeof Math === 'function' ? ['fn', Math()] : Math), "
           "Array.px, ({}).py, typeof Math === 'object' ? Math.pz : 'clobbered', JSON.px, Object.create({}).py, [].px, [1].concat([2]).px]")
PROBE = ("var t_ = 0; for (var i_ = 0; i_ < 3; i_++) t_ += i_; "
         "[t_, /a+/.exec('caat')[0], (function () { var c = 5; return function () { return c; }; })()(), [3, 1, 2].sort().join(''), "
         "(function () { try { throw 1; } catch (e) { return e + 1; } finally { t_ = 9; } })(), t_]")
PROBE_WANT = [3, "aa", 5, "123", 2, 9]


class TickClock:
    """Stands still, or (hot) jumps 10 s per reading."""

    def __init__(self):
        self.t = 0.0
        self.hot = False
        self.reads = 0

    def monotonic(self):
        self.reads += 1
        if self.hot:
            self.t += 10.0
        return self.t

    def time(self):
        return self.t


def pick(i, grid):
    pre(0 <= i < len(grid))
    for k in range(len(grid)):
        if i == k:
            return grid[k]
    raise AssertionError


class Model:
    def __init__(self):
        self.globals = {}          # name -> ("val", v) | ("fn", v)
        self.px = None
        self.py = None
        self.pz = None
        self.qx = None

    def observe(self, full=True):
        out = []
        for n in NAMES:
            if n in self.globals:
                kind, v = self.globals[n]
                out.append(["fn", v] if kind == "fn" else v)
            else:
                out.append("M" if n == "Math" else "U")
        out += [self.px, self.py, self.pz if "Math" not in self.globals else "clobbered", self.px, self.py, self.px, self.px]
        if full:
            out.append([self.qx for _ in builtin_objects()])
        return out


def same(a, b):
    if isinstance(a, list) or isinstance(b, list):
        if not (isinstance(a, list) and isinstance(b, list)) or len(a) != len(b):
            return False
        for x, y in zip(a, b):
            if not same(x, y):
                return False
        return True
    if a is None or b is None:
        return a is None and b is None
    if isinstance(a, str) or isinstance(b, str):
        return isinstance(a, str) and isinstance(b, str) and a == b
    if isinstance(a, bool) or isinstance(b, bool):
        return isinstance(a, bool) and isinstance(b, bool) and a == b
    return a == b


def observe(ctx, full=True):
    out = ctx._to_python(run_compiled(ctx, compile_js(OBSERVE)))
    if full:
        with NoTracing():
            names = builtin_objects()
            extra = "[" + ", ".join("typeof %s === 'undefined' ? 'U' : %s.qx" % (n, n) for n in names) + "]"
        out = out + [ctx._to_python(run_compiled(ctx, compile_js(extra)))]
    return out


def apply_op(op, ctx, model, name, v, clock):
    """Run one operation on a context and on its model; returns the error class name raised (or None)."""
    from microjs.errors import JSError, JSSyntaxError, TimeLimitError, MemoryLimitError
    src = None
    expect = None
    if op == "var":
        src = "var %s = V;" % name
        model.globals[name] = ("val", v)
    elif op == "function":
        src = "function %s() { return V_%s; } var V_%s = V;" % (name, name, name)
        model.globals[name] = ("fn", v)
    elif op == "assign":
        src = "%s = V;" % name
        model.globals[name] = ("val", v)
    elif op == "builtin-prop":
        src = "Array.px = V; JSON.px = V; Array.prototype.px = V;"
        model.px = v
    elif op == "object-proto":
        src = "Object.prototype.py = V;"
        model.py = v
    elif op == "math-prop":
        pre("Math" not in model.globals)
        src = "Math.pz = V;"
        model.pz = v
    elif op == "throw":
        src = "%s = V; throw new Error('x'); %s = 0;" % (name, name)
        model.globals[name] = ("val", v)
        expect = JSError
    elif op == "type-error":
        src = "%s = V; null.x; %s = 0;" % (name, name)
        model.globals[name] = ("val", v)
        expect = JSError
    elif op == "syntax-error":
        src = "%s = V; (" % name
        expect = JSSyntaxError
    elif op == "loop-forever":
        src = "%s = V; while (true) { }" % name
        model.globals[name] = ("val", v)
        expect = TimeLimitError
    elif op == "recurse-forever":
        src = "%s = V; (function r() { return r() + 1; })(); %s = 0;" % (name, name)
        model.globals[name] = ("val", v)
        expect = MemoryLimitError
    elif op == "indirect-eval":
        src = "(0, eval)('var %s = V;');" % name
        model.globals[name] = ("val", v)
    elif op == "new-function":
        src = "new Function('%s = V;')();" % name
        model.globals[name] = ("val", v)
    elif op == "nested-eval-throw":
        src = "eval('%s = V; throw new Error(\"inner\");'); %s = 0;" % (name, name)
        model.globals[name] = ("val", v)
        expect = JSError
    elif op == "regex-then-throw":
        src = "%s = V; 'aaa'.replace(/a/g, function (m) { throw new Error('cb'); });" % name
        model.globals[name] = ("val", v)
        expect = JSError
    elif op == "callback-throw":
        src = "[1, 2].forEach(function (e) { %s = V; if (e === 2) { null.y; } });" % name
        model.globals[name] = ("val", v)
        expect = JSError
    elif op == "loop-in-try":
        src = "%s = V; try { while (true) { } } catch (e) { %s = 0; } finally { }" % (name, name)
        model.globals[name] = ("val", v)
        expect = TimeLimitError
    elif op == "recurse-in-try":
        src = "%s = V; try { (function r() { return r() + 1; })(); } catch (e) { %s = 0; }" % (name, name)
        model.globals[name] = ("val", v)
        expect = MemoryLimitError
    elif op == "all-builtins":
        with NoTracing():
            src = " ".join("%s.qx = V;" % n for n in builtin_objects())
        model.qx = v
    elif op == "set":
        ctx.set(name, v)
        model.globals[name] = ("val", v)
        return None
    elif op == "get":
        g = ctx.get(name)
        if name in model.globals and model.globals[name][0] == "val" and not same(g, model.globals[name][1]):
            return "get(%r) returns %r, the model holds %r" % (name, g, model.globals[name][1])
        return None
    else:
        raise KeyError(op)
    # V travels as a global of its own so that the source text stays concrete
    ctx.set("V", v)
    clock.hot = op in ("loop-forever", "loop-in-try")
    raised = None
    try:
        ctx.eval(src)
    except JSError as e:
        raised = e
    finally:
        clock.hot = False
    ctx._globals.pop("V", None)
    if expect is None:
        if raised is not None:
            return "%s raises %s: %s" % (op, type(raised).__name__, raised)
    else:
        if raised is None:
            return "%s does not raise" % op
        if type(raised) is not expect and not (expect is JSError and type(raised) is JSError):
            return "%s raises %s instead of %s" % (op, type(raised).__name__, expect.__name__)
    return None


def make_history(n, first, second_ctx=None):
    def history_case(o1, c1, n1, o2, c2, n2, o3, c3, n3, v1, v2, v3):
        if second_ctx is not None:
            pre(c2 == second_ctx)
        steps = [(o1, c1, n1, v1), (o2, c2, n2, v2), (o3, c3, n3, v3)][:n]
        for t in [(o1, c1, n1, v1), (o2, c2, n2, v2), (o3, c3, n3, v3)][n:]:
            pre(t[0] == 0 and t[1] == 0 and t[2] == 0 and t[3] == 0)
        pre(o1 == first)
        import microjs.vm as _vm
        import microjs.context as _ctx
        clock = TickClock()
        saved = (_vm.time, _ctx.time)
        _vm.time = clock
        _ctx.time = clock
        try:
            ctxs = [new_context(time_limit=1.0, memory_limit=30000), new_context(time_limit=2.0, memory_limit=60000)]
            models = [Model(), Model()]
            for step_no, (o, c, a, v) in enumerate(steps):
                op = pick(o, OPS)
                ci = pick(c, [0, 1])
                name = pick(a, NAMES if step_no == 0 else NAMES[::2])      # later steps: one fresh name, one that shadows a built-in
                if op in ("builtin-prop", "object-proto", "math-prop", "all-builtins"):
                    pre(a == 0)
                err = apply_op(op, ctxs[ci], models[ci], name, v, clock)
                if err is not None:
                    return lambda: "step %s on context %d: %s" % (op, ci, err)
                cover("judged")
                full = op == "all-builtins" or step_no == len(steps) - 1      # the 50-object probe: after the relevant step and at the end
                for k in (0, 1):
                    if ctxs[k]._current_vm is not None:
                        return lambda: "after %s the context still points at an interpreter" % op
                    got = observe(ctxs[k], full)
                    want = models[k].observe(full)
                    if not same(got, want):
                        return lambda: "after %s on context %d, context %d shows %r, the model %r" % (op, ci, k, got, want)
                if op in ERROR_OPS:
                    cover("after-error")
                    pr = ctxs[ci].eval(PROBE)
                    if not same(pr, PROBE_WANT):
                        return lambda: "after %s the context misbehaves: probe gives %r" % (op, pr)
                    ctxs[ci]._globals.pop("t_", None)
                    ctxs[ci]._globals.pop("i_", None)
            # nothing leaked into the process: a context created now is pristine
            fresh = new_context()
            got = observe(fresh)
            if not same(got, Model().observe()):
                return lambda: "a context created afterwards is not pristine: %r" % (got,)
        finally:
            _vm.time, _ctx.time = saved
        return True
    history_case.__annotations__ = {"o1": int, "c1": int, "n1": int, "o2": int, "c2": int, "n2": int, "o3": int, "c3": int, "n3": int,
                                    "v1": int, "v2": int, "v3": int, "return": bool}
    return history_case


def wrap(fn):
    import inspect

    def run(*a, **k):
        out = fn(*a, **k)
        if out is True:
            return True
        return out() if callable(out) else out
    run.__annotations__ = dict(fn.__annotations__)
    run.__signature__ = inspect.signature(fn)
    run.__name__ = fn.__name__
    return run


def replay_history(n, first):
    def rp(o1, c1, n1, o2, c2, n2, o3, c3, n3, v1, v2, v3):
        steps = [(o1, c1, n1, v1), (o2, c2, n2, v2), (o3, c3, n3, v3)][:n]
        return {"history": [{"op": OPS[o], "context": c, "name": NAMES[a], "value": v} for (o, c, a, v) in steps]}
    return rp


def harnesses():
    hs = []
    for n in (1, 2, 3):
        for first in range(len(OPS)):
          splits = [None] if not (n == 2 and OPS[first] in ERROR_OPS) else [0, 1]
          for sc in splits:
            hs.append(Harness(
                id="C12.history.%d.%s%s" % (n, OPS[first], "" if sc is None else ".ctx%d" % sc), fn=wrap(make_history(n, first, sc)),
                group="history.%d" % n, functions=FNS,
                per_path=60, budget=200 if n == 1 else (600 if n == 2 else 6000), tier="quick" if n < 3 else "thorough",
                require=("judged",) + (("after-error",) if OPS[first] in ERROR_OPS else ()), replay=replay_history(n, first),
                stubs=("clock: TickClock replaces microjs.vm.time and microjs.context.time",),
                bounds=["%d operations starting with %s; each operation one of %d kinds on one of 2 contexts (limits 1 s/30000 and "
                        "2 s/60000) and one of %d names with a symbolic integer payload; all observations on both contexts and a "
                        "fresh context compared with the dict model after every step" % (n, OPS[first], len(OPS), len(NAMES))]))
    return hs
