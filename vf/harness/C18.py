"""C18 - numbers print, parse and round as IEEE doubles the ECMAScript way (DESIGN 4, C18)."""
import math

from ..harness_api import Harness
from ..compat import pre, cover, known, NoTracing
from ..refsem import num as N
from ..refsem import ops as R
from ..refsem.num import UNDEF, NULL, Unspecified
from .. import domains as D

ASSUMPTIONS = [
    "shortest round-trip digit generation (host dtoa via repr) and correctly rounded decimal->binary conversion "
    "(host strtod via float()) are trusted on both sides; what is judged is the notation/layout, the exact decimal "
    "rounding of toFixed/toExponential/toPrecision (rational arithmetic in the oracle) and the accepted grammar",
    "doubles are solver-chosen (digit pattern, decimal exponent in [-330, 310], sign) and boundary values; texts are "
    "built from a pinned alphabet by solver-chosen indices; these are finite solver-indexed domains because the "
    "engine's number<->string code crosses into C (repr, float, re), where symbolic values are realised",
    "toString(radix != 10) is judged for integers |x| <= 2**53 (fractions are implementation-approximated in ECMAScript); "
    "Math functions are judged at the specified special points and for the integer-valued rounding functions; accuracy "
    "within one ulp elsewhere is the host libm's",
]
FNS = ("microjs.values.to_string", "microjs.values._float_to_js_string", "microjs.values.to_number",
       "microjs.vm.VM._make_number_method", "microjs.context.Context._global_parseint", "microjs.context.Context._global_parsefloat",
       "microjs.context.Context._create_math_object", "microjs.context.Context._create_number_constructor")
NAN, INF = float("nan"), float("inf")
DIGITS = ["1", "5", "15", "25", "123", "999", "1234567", "9999999999999999", "17976931348623157", "4940656458412465", "10000000000000001"]


def pick(i, grid):
    pre(0 <= i < len(grid))
    for k in range(len(grid)):
        if i == k:
            return grid[k]
    raise AssertionError


def js_eval(src, g):
    from ..jsrun import eval_concrete
    return eval_concrete(src, g)


def make_tostring(digs, lo, hi):
    def tostring_case(e, neg):
        """Implicit conversion, String(), toString(), toString(10), template concatenation and JSON text of one double."""
        pre(lo <= e <= hi)
        ee = pick(e + 330, list(range(-330, 311)))
        sg = pick(0 if not neg else 1, [1.0, -1.0])
        with NoTracing():
            x = sg * float(digs + "e" + str(ee - len(digs) + 1))
            if math.isinf(x):
                want = "-Infinity" if x < 0 else "Infinity"
            else:
                want = N.number_to_string(x)
            res = js_eval("[String(X), '' + X, X.toString(), X.toString(10), JSON.stringify(X), [X].join(), X.toPrecision(), "
                          "String(Number(String(X)) === X)]", {"X": x})
            got = list(res._elements)
            cover("judged")
            cover("exponent-form", "e" in want)
            jwant = "null" if math.isinf(x) else want
            exp = [want, want, want, want, jwant, want, want, "true"]
            if got != exp:
                return "number %r: engine %r, ECMAScript %r" % (x, got, exp)
        return True
    tostring_case.__annotations__ = {"e": int, "neg": bool, "return": bool}
    return tostring_case


BOUNDARY = [0.0, -0.0, 1.0, -1.0, 0.5, 1.5, 2.5, -2.5, 1.005, 1.45, 9.995, 99.99, 123.456, 1e21, 1e-7, 1e-6, 0.000001234, 5e-324,
            2.2250738585072014e-308, 1.7976931348623157e308, 2.0 ** 53, 2.0 ** 53 - 1, 2.0 ** 53 + 2, 0.1, 0.3, 1 / 3, 2 / 3, 1e20,
            999999999999999900000.0, 25.0, 0.05, 0.045, 1.25, 1.35, 8.345, 1e-10, 123456789.12345679, -1e-7, 0.000001, 9.5, 10.5,
            0.9999999999999999, 1.0000000000000002, 4.35, 1e15, 1e16, 123456789012345680000.0, NAN, INF, -INF, 1000.0, 0.00001,
            2147483648.0, 4294967295.0, 255.0, -255.0, 1e100, 1.5e-5]
FGRID = [UNDEF, 0, 1, 2, 3, 7, 20, 21, 50, 100, 101, -1, 1.9, NAN, "2", NULL, INF]


def make_format(meth, part):
    def format_case(xi, fi):
        x = pick(xi, BOUNDARY[part::3])
        fv = pick(fi, FGRID)
        with NoTracing():
            f = None if fv is UNDEF else R.to_number(fv)
            fi_ = None
            if f is not None:
                fi_ = 0 if (isinstance(f, float) and f != f) else (f if isinstance(f, int) else (int(f) if not math.isinf(f) else f))
            want = None
            try:
                if meth == "toFixed":
                    k = 0 if fi_ is None else fi_
                    want = "RangeError" if not (0 <= k <= 100) else N.to_fixed(x, int(k))
                elif meth == "toExponential":
                    if x != x or math.isinf(x):
                        want = N.to_exponential(x, None)
                    elif fi_ is not None and not (0 <= fi_ <= 100):
                        want = "RangeError"
                    else:
                        want = N.to_exponential(x, None if fi_ is None else int(fi_))
                else:
                    if fi_ is None or x != x or math.isinf(x):
                        want = N.to_precision(x, None)
                    elif not (1 <= fi_ <= 100):
                        want = "RangeError"
                    else:
                        want = N.to_precision(x, int(fi_))
            except Unspecified:
                return True
            res = js_eval("var o; try { o = X.%s(F); } catch (e) { o = e.name; } o" % meth, {"X": x, "F": D.to_engine(fv)})
            cover("judged")
            if res != want:
                return "(%r).%s(%s): engine %r, ECMAScript %r" % (x, meth, D.show(fv), res, want)
        return True
    format_case.__annotations__ = {"xi": int, "fi": int, "return": bool}
    return format_case


INTS = [0, 1, -1, 2, 7, 8, 9, 10, 15, 16, 31, 32, 35, 36, 255, 256, 1023, 65535, 2 ** 31, 2 ** 32 - 1, 2 ** 53, -(2 ** 53), 123456789]


def radix_case(xi: int, r: int) -> bool:
    pre(-2 <= r <= 40)
    x = pick(xi, INTS + [NAN, INF, -INF, -0.0])
    rr = pick(r + 2, list(range(-2, 41)))
    with NoTracing():
        if 2 <= rr <= 36:
            want = N.to_radix_string(float(x) if not isinstance(x, float) else x, rr) if rr != 10 else N.number_to_string(float(x))
            if x != x:
                want = "NaN"
        else:
            want = "RangeError"
        res = js_eval("var o; try { o = X.toString(R); } catch (e) { o = e.name; } o", {"X": x, "R": rr})
        cover("judged")
        if res != want:
            return "(%r).toString(%d): engine %r, ECMAScript %r" % (x, rr, res, want)
    return True


ALPHA = ["0", "1", "9", "5", ".", "e", "E", "+", "-", "x", "X", "b", "o", "a", "f", "I", "n", "_", " ", "\t", "\n", " ", "﻿", "z", "١", ",", "Infinity", "0x", "1e", "00"]
RADIX = [UNDEF, 0, 2, 8, 10, 16, 36, 37, 1, -1, 16.9, "16", NAN, NULL, INF, 2 ** 32 + 16, True]


def make_parse(fn, k, first=None):
    def h(i0, i1, i2, r):
        idx = [i0, i1, i2]
        toks = [] if first is None else [first]
        for j in range(3):
            if j < k:
                toks.append(pick(idx[j], ALPHA))
            else:
                pre(idx[j] == 0)
        rv = pick(r, RADIX if fn == "parseInt" else [UNDEF])
        with NoTracing():
            t = "".join(toks)
            if fn == "Number":
                want = N.to_number_str(t)
                src = "[Number(T), +T, T - 0, T * 1, -(-T)]"
                n_res = 5
            elif fn == "parseFloat":
                want = N.parse_float(t)
                src = "[parseFloat(T), Number.parseFloat ? Number.parseFloat(T) : parseFloat(T)]"
                n_res = 2
            else:
                rnum = 0 if rv is UNDEF else R.to_int32(R.to_number(rv))
                want = N.parse_int(t, rnum)
                src = "[parseInt(T, R), Number.parseInt ? Number.parseInt(T, R) : parseInt(T, R)]"
                n_res = 2
            res = js_eval(src, {"T": t, "R": D.to_engine(rv)})
            cover("judged")
            cover("finite", want == want)
            for got in res._elements:
                if not D.same_number(got, want):
                    return "%s(%r%s): engine %s, ECMAScript %s" % (fn, t, ", " + D.show(rv) if fn == "parseInt" else "",
                                                                 D.show(got), D.show(want))
        return True
    h.__annotations__ = {"i0": int, "i1": int, "i2": int, "r": int, "return": bool}
    return h


SPECIAL = [NAN, 0.0, -0.0, INF, -INF, 1.0, -1.0, 0.5, -0.5, 1.5, -1.5, 2.5, -2.5, 0.49999999999999994, 2.0 ** 52 + 0.5, 2.0 ** 53,
           -(2.0 ** 53), 1e308, -1e308, 5e-324, 1000.0, -1000.0, 710.0, -746.0, 2.0, 10.0, 8.0, -8.0, 1e-10, 0.1, 4294967296.0, 2147483648.0]


def _r(x):
    """Math.round: floor(x + 0.5) with -0 for [-0.5, 0) and exact for large values."""
    if x != x or math.isinf(x) or x == int(x) if (x == x and not math.isinf(x)) else True:
        return x
    f = math.floor(x)
    r = f + 1 if x - f >= 0.5 else f
    if r == 0 and x < 0:
        return -0.0
    return float(r)


MATH1 = {
    "abs": lambda x: abs(x),
    "floor": lambda x: x if (x != x or math.isinf(x)) else (-0.0 if (x == 0 and math.copysign(1, x) < 0) else float(math.floor(x))),
    "ceil": lambda x: x if (x != x or math.isinf(x)) else (-0.0 if (-1 < x < 0 or (x == 0 and math.copysign(1, x) < 0)) else float(math.ceil(x))),
    "trunc": lambda x: x if (x != x or math.isinf(x)) else (math.copysign(0.0, x) if -1 < x < 1 else float(math.trunc(x))),
    "round": _r,
    "sign": lambda x: x if (x != x or x == 0) else (1.0 if x > 0 else -1.0),
    "sqrt": lambda x: NAN if (x != x or x < 0) else (x if x == 0 or x == INF else math.sqrt(x)),
    "cbrt": lambda x: x if (x != x or x == 0 or math.isinf(x)) else None,
    "exp": lambda x: NAN if x != x else (INF if x == INF else (0.0 if x == -INF else (1.0 if x == 0 else ("inf-or-value" if x > 709 else None)))),
    "expm1": lambda x: x if (x != x or x == 0 or x == INF) else (-1.0 if x == -INF else None),
    "log": lambda x: NAN if (x != x or x < 0) else (-INF if x == 0 else (INF if x == INF else (0.0 if x == 1 else None))),
    "log2": lambda x: NAN if (x != x or x < 0) else (-INF if x == 0 else (INF if x == INF else (0.0 if x == 1 else (3.0 if x == 8 else None)))),
    "log10": lambda x: NAN if (x != x or x < 0) else (-INF if x == 0 else (INF if x == INF else (0.0 if x == 1 else (3.0 if x == 1000 else None)))),
    "log1p": lambda x: NAN if (x != x or x < -1) else (-INF if x == -1 else (x if x == 0 or x == INF else None)),
    "sin": lambda x: NAN if (x != x or math.isinf(x)) else (x if x == 0 else None),
    "cos": lambda x: NAN if (x != x or math.isinf(x)) else (1.0 if x == 0 else None),
    "tan": lambda x: NAN if (x != x or math.isinf(x)) else (x if x == 0 else None),
    "asin": lambda x: NAN if (x != x or x > 1 or x < -1) else (x if x == 0 else None),
    "acos": lambda x: NAN if (x != x or x > 1 or x < -1) else (0.0 if x == 1 else None),
    "atan": lambda x: NAN if x != x else (x if x == 0 else None),
    "sinh": lambda x: x if (x != x or x == 0 or math.isinf(x)) else None,
    "cosh": lambda x: NAN if x != x else (INF if math.isinf(x) else (1.0 if x == 0 else None)),
    "tanh": lambda x: x if (x != x or x == 0) else (1.0 if x == INF else (-1.0 if x == -INF else None)),
    "fround": lambda x: x if (x != x or x == 0 or math.isinf(x)) else None,
    "clz32": lambda x: float(32 - (R.to_uint32(x).bit_length())),
}


def math1_case(fi: int, xi: int) -> bool:
    name = pick(fi, sorted(MATH1))
    x = pick(xi, SPECIAL)
    with NoTracing():
        from microjs.errors import JSError
        try:
            res = js_eval("typeof Math.%s === 'function' ? Math.%s(X) : 'absent'" % (name, name), {"X": x})
        except JSError as e:
            return "Math.%s(%r) raises %s" % (name, x, e)
        if res == "absent":
            return True
        cover("judged")
        want = MATH1[name](x)
        if isinstance(res, bool) or not isinstance(res, (int, float)):
            return "Math.%s(%r) returns %r" % (name, x, res)
        if want is None:
            return True
        if want == "inf-or-value":
            return True if res == INF else "Math.exp(%r): engine %r" % (x, res)
        if not D.same_number(res, float(want)):
            return "Math.%s(%r): engine %s, ECMAScript %s" % (name, x, D.show(res), D.show(float(want)))
    return True


def _max(a, b, mx):
    if a != a or b != b:
        return NAN
    if a == 0 and b == 0:
        neg_a, neg_b = math.copysign(1, a) < 0, math.copysign(1, b) < 0
        if mx:
            return 0.0 if not (neg_a and neg_b) else -0.0
        return -0.0 if (neg_a or neg_b) else 0.0
    return max(a, b) if mx else min(a, b)


def _hypot(a, b):
    if math.isinf(a) or math.isinf(b):
        return INF
    if a != a or b != b:
        return NAN
    return None


def _atan2(y, x):
    if x != x or y != y:
        return NAN
    if y == 0 and x > 0 and not math.isinf(x):
        return y
    return None


MATH2 = {"max": lambda a, b: _max(a, b, True), "min": lambda a, b: _max(a, b, False), "pow": lambda a, b: R.num_pow(a, b),
         "hypot": _hypot, "atan2": _atan2,
         "imul": lambda a, b: float(R._i32(R.to_int32(a) * R.to_int32(b)))}


def make_math2(name):
    def math2_case(xi, yi):
        x = pick(xi, SPECIAL)
        y = pick(yi, SPECIAL)
        with NoTracing():
            from microjs.errors import JSError
            try:
                res = js_eval("Math.%s(X, Y)" % name, {"X": x, "Y": y})
            except JSError as e:
                return "Math.%s(%r, %r) raises %s" % (name, x, y, e)
            cover("judged")
            want = MATH2[name](x, y)
            if isinstance(res, bool) or not isinstance(res, (int, float)):
                return "Math.%s(%r, %r) returns %r" % (name, x, y, res)
            if want is None or want is R.UNSPEC:
                return True
            if not D.same_number(res, float(want)):
                return "Math.%s(%r, %r): engine %s, ECMAScript %s" % (name, x, y, D.show(res), D.show(float(want)))
        return True
    math2_case.__annotations__ = {"xi": int, "yi": int, "return": bool}
    return math2_case


def math_noargs(i: int) -> bool:
    src, want = pick(i, [("Math.max()", -INF), ("Math.min()", INF), ("Math.max(1, 2, 3)", 3.0), ("Math.min(1, NaN, 3)", NAN),
                         ("Math.hypot()", 0.0), ("Math.abs()", NAN), ("Math.floor()", NAN), ("Math.round('2.5')", 3.0),
                         ("Math.max('3', 2)", 3.0), ("Math.sqrt('4')", 2.0), ("Math.pow(2, '3')", 8.0), ("Math.sign(-0)", -0.0),
                         ("Math.floor(null)", 0.0), ("Math.ceil(undefined)", NAN), ("Math.trunc(true)", 1.0)])
    with NoTracing():
        from microjs.errors import JSError
        try:
            res = js_eval(src, {})
        except JSError as e:
            return "%s raises %s" % (src, e)
        cover("judged")
        if not D.same_number(res, want):
            return "%s: engine %s, ECMAScript %s" % (src, D.show(res), D.show(want))
    return True


def harnesses():
    hs = []
    for i, digs in enumerate(DIGITS):
        for lo, hi in ((-330, -1), (0, 310)):
            hs.append(Harness(id="C18.tostring.%02d.%s" % (i, "neg" if hi < 0 else "pos"), fn=make_tostring(digs, lo, hi),
                              bounds=["double = +-%s x 10**e (scaled to one leading digit), e: every integer in [%d, %d] (solver-chosen)" % (digs, lo, hi)],
                              per_path=60, budget=600, require=("judged", "exponent-form"), group="number -> string", functions=FNS))
    for meth in ("toFixed", "toExponential", "toPrecision"):
        for part in range(3):
            hs.append(Harness(id="C18.format.%s.%d" % (meth, part), fn=make_format(meth, part),
                              bounds=["%s x %d boundary doubles x %d digit-count values" % (meth, len(BOUNDARY[part::3]), len(FGRID))],
                              per_path=60, budget=600, require=("judged",), group="number -> string", functions=FNS))
    hs.append(Harness(id="C18.radix", fn=radix_case, bounds=["integer (index into %d values) x every radix in [-2, 40]" % (len(INTS) + 4)],
                      per_path=60, budget=900, require=("judged",), group="number -> string", functions=FNS))
    for fn in ("Number", "parseFloat", "parseInt"):
        hs.append(Harness(id="C18.parse.%s.2" % fn, fn=make_parse(fn, 2),
                          bounds=["text: 2 tokens from a %d-token alphabet (digits, signs, radix prefixes, exponents, whitespace incl. "
                                  "U+00A0/U+FEFF/U+2028, junk)" % len(ALPHA), "parseInt radix: index into %d values" % len(RADIX)],
                          per_path=60, budget=1800, require=("judged", "finite"), group="string -> number", functions=FNS,
                          tier="quick" if fn != "parseInt" else "thorough"))
        for ti, tok in enumerate(ALPHA):
            if fn == "parseInt":
                hs.append(Harness(id="C18.parse.parseInt.2.%02d" % ti, fn=make_parse(fn, 1, tok),
                                  bounds=["text: %r + 1 token from the alphabet; radix: index into %d values" % (tok, len(RADIX))],
                                  per_path=60, budget=600, require=("judged",), group="string -> number", functions=FNS))
            hs.append(Harness(id="C18.parse.%s.3.%02d" % (fn, ti), fn=make_parse(fn, 2, tok),
                              bounds=["text: %r + 2 tokens from the alphabet" % tok], per_path=60, budget=3600, tier="thorough",
                              require=("judged",), group="string -> number", functions=FNS))
    hs.append(Harness(id="C18.math1", fn=math1_case, bounds=["%d one-argument Math functions x %d special doubles" % (len(MATH1), len(SPECIAL))],
                      per_path=60, budget=900, require=("judged",), group="Math", functions=FNS))
    for name in sorted(MATH2):
        hs.append(Harness(id="C18.math2." + name, fn=make_math2(name), bounds=["Math.%s x %d x %d special doubles" % (name, len(SPECIAL), len(SPECIAL))],
                          per_path=60, budget=600, require=("judged",), group="Math", functions=FNS))
    hs.append(Harness(id="C18.math-args", fn=math_noargs, bounds=["index into 15 calls with missing / non-numeric arguments"],
                      per_path=60, budget=100, require=("judged",), group="Math", functions=FNS))
    return hs
