"""C08 - objects, prototypes, functions and this behave as specified (DESIGN 4, C08)."""
from ..harness_api import Harness
from ..compat import pre, cover, NoTracing
from ..skel import objs as OBJS
from ..skel import calls as CALLS
from .. import diffrun

ASSUMPTIONS = [
    "oracle: the object model of the definitional interpreter vf/refsem/interp.py (own-first lookup along the prototype chain, "
    "accessors called with the receiver, [[Set]] creating own data properties, ordinary [[Delete]], instanceof through the chain, "
    "[[Construct]] with the object-return rule, bound functions, lexical this/arguments of arrows)",
    "object histories: a fixed prelude builds a chain P <- M <- O, a constructor F with a prototype and an instance I, a free "
    "object N; each step is a solver-chosen (operation, target, key, second target) from the tables in vf/skel/objs.py; after "
    "EVERY step every observation (read, in, own-test, keys, for-in, values/entries, prototype, instanceof) on EVERY object is "
    "logged and compared; prototype cycles and writes to getter-only accessors are excluded (not judged)",
    "key order of enumerations is compared as a set (the engine documents insertion order, ECMAScript puts integer keys first); "
    "for-in is own-keys-only as documented",
    "call forms: 10 function kinds x 22 call forms and 42 constructor/prototype/accessor programs with symbolic integer arguments",
    "symbolic keys: one-step get/set/in/delete/hasOwnProperty with the key any string of length <= 2, against a plain dict-chain model",
]
FNS = ("microjs.vm.VM._get_property", "microjs.vm.VM._set_property", "microjs.vm.VM._delete_property", "microjs.vm.VM._find_property",
       "microjs.vm.VM._has_property", "microjs.vm.VM._new_object", "microjs.vm.VM._invoke_js_function", "microjs.vm.VM._call_callback",
       "microjs.vm.VM._make_function_method", "microjs.vm.VM._execute_opcode (BUILD_OBJECT, IN, INSTANCEOF, FOR_IN_INIT, MAKE_CLOSURE, RETURN)",
       "microjs.context.Context._create_object_constructor")


def pick(i, grid):
    pre(0 <= i < len(grid))
    for k in range(len(grid)):
        if i == k:
            return grid[k]
    raise AssertionError


NOPS, NT, NK = len(OBJS.OPS), len(OBJS.TARGETS), len(OBJS.KEYS)
# representative (target, key) choices for the second step of the quick tier
REP_TK = [(0, 1), (2, 1), (2, 3), (3, 7), (5, 1), (4, 4), (1, 5)]
REP_QUICK = [(2, 1), (0, 1), (3, 7)]


def make_history(n, first_op, full, reps=REP_TK):
    def history_case(t1, k1, u1, o2, t2, k2, u2, o3, t3, k3, u3):
        steps = []
        if full or n == 1:
            a = pick(t1, list(range(NT)))
            b = pick(k1, list(range(NK))) if OBJS.OPS[first_op][2] else 0
            if not OBJS.OPS[first_op][2]:
                pre(k1 == 0)
        else:
            a, b = pick(t1, reps)
            pre(k1 == 0)
            if not OBJS.OPS[first_op][2]:
                b = 0
        c = pick(u1, [0, 1, 2]) if OBJS.OPS[first_op][0] == "set-proto" else 0
        if OBJS.OPS[first_op][0] != "set-proto":
            pre(u1 == 0)
        steps.append((first_op, a, b, c))
        for (o, t, k, u) in ((o2, t2, k2, u2), (o3, t3, k3, u3))[:n - 1]:
            op = pick(o, list(range(NOPS)))
            if full:
                tt = pick(t, list(range(NT)))
                kk = pick(k, list(range(NK))) if OBJS.OPS[op][2] else 0
                if not OBJS.OPS[op][2]:
                    pre(k == 0)
            else:
                tt, kk = pick(t, reps)
                pre(k == 0)
                if not OBJS.OPS[op][2]:
                    kk = 0
            uu = pick(u, [0, 1, 2]) if OBJS.OPS[op][0] == "set-proto" else 0
            if OBJS.OPS[op][0] != "set-proto":
                pre(u == 0)
            steps.append((op, tt, kk, uu))
        for (o, t, k, u) in ((o2, t2, k2, u2), (o3, t3, k3, u3))[n - 1:]:
            pre(o == 0 and t == 0 and k == 0 and u == 0)
        with NoTracing():
            if not OBJS.legal(steps):
                return True
            src = OBJS.history(steps, [100 * (i + 1) for i in range(len(steps))])
            r = diffrun.compare(src, {}, max_steps=600000)
        if r is not True:
            return "history %s: %s" % ([(OBJS.OPS[s[0]][0], OBJS.TARGETS[s[1]], OBJS.KEYS[s[2]]) for s in steps], r)
        return True
    history_case.__annotations__ = {n_: int for n_ in ("t1", "k1", "u1", "o2", "t2", "k2", "u2", "o3", "t3", "k3", "u3")}
    history_case.__annotations__["return"] = bool
    return history_case


def history_replay(n, first_op, full, reps=REP_TK):
    def rp(t1, k1, u1, o2, t2, k2, u2, o3, t3, k3, u3):
        if full or n == 1:
            steps = [(first_op, t1, k1, u1)]
        else:
            steps = [(first_op, reps[t1][0], reps[t1][1] if OBJS.OPS[first_op][2] else 0, u1)]
        for (o, t, k, u) in ((o2, t2, k2, u2), (o3, t3, k3, u3))[:n - 1]:
            if full:
                steps.append((o, t, k, u))
            else:
                steps.append((o, reps[t][0], reps[t][1] if OBJS.OPS[o][2] else 0, u))
        return {"script": OBJS.history(steps, [100 * (i + 1) for i in range(len(steps))]),
                "steps": [(OBJS.OPS[s[0]][0], OBJS.TARGETS[s[1]], OBJS.KEYS[s[2]]) for s in steps]}
    return rp


def make_call(src):
    def call_case(a, b):
        av = pick(a, [3, 0, -1])
        bv = pick(b, [4, 3, 1000])
        with NoTracing():
            r = diffrun.compare(src, {"A": av, "B": bv}, max_steps=20000)
        if r is not True:
            return r
        return True
    call_case.__annotations__ = {"a": int, "b": int, "return": bool}
    return call_case


# ------------------------------------------------------------------------------------------- symbolic keys, one step
CHAIN_SRC = """
var P = {inh: 1, both: 2, '1': 'one', '': 'empty'};
var M = Object.create(P); M.mid = 3; M.both = 4;
Object.defineProperty(M, 'acc', {get: function () { return 'got'; }, set: function (v) { this.hit = v; }, enumerable: true, configurable: true});
var O = Object.create(M); O.own = 5; O.z = 6;
function F() {} F.prototype.fm = 7; F.sp = 8;
var A = [10, 20];
"""


def chain_objects():
    """Run the prelude concretely (untraced) and hand back the engine objects and a VM bound to the context."""
    with NoTracing():
        from microjs import Context
        from microjs.vm import VM
        ctx = Context()
        ctx.eval(CHAIN_SRC)
        vm = VM()
        vm.globals = ctx._globals
        g = ctx._globals
        return ctx, vm, g


def model_lookup(holder, key):
    """Own-first walk of the same tables, written as the specification reads."""
    o = holder
    while o is not None:
        if key in o._getters or key in o._setters:
            return ("accessor", o)
        if key in o._properties:
            return ("data", o._properties[key], o)
        o = o._prototype
    return None


def symkey_get(k: str, which: int) -> bool:
    pre(len(k) <= 2)
    ctx, vm, g = chain_objects()
    name = pick(which, ["O", "M", "P"])
    obj = g[name]
    got = vm._get_property(obj, k)
    cover("judged")
    import microjs.values as V
    m = model_lookup(obj, k)
    if m is None:
        if got is not V.UNDEFINED:
            return "reading an unknown name from %s gives something" % name
    elif m[0] == "data":
        if got is not m[1] and got != m[1]:
            return "reading from %s does not give the nearest definition along the chain" % name
    else:
        if got != "got":
            return "an inherited getter was not used"
    inn = ctx_in(vm, obj, k)
    if inn != (m is not None):
        return "`in` disagrees with the chain for %s" % name
    return True


def ctx_in(vm, obj, key):
    return vm._has_property(obj, vm._property_holder(obj), key)


def symkey_set(k: str, which: int, v: int) -> bool:
    pre(len(k) <= 2)
    ctx, vm, g = chain_objects()
    name = pick(which, ["O", "M"])
    obj = g[name]
    pre(k != "__proto__")
    before_p = dict(g["P"]._properties)
    before_m = dict(g["M"]._properties)
    m = model_lookup(obj, k)
    vm._set_property(obj, k, v)
    cover("judged")
    if m is not None and m[0] == "accessor":
        return True
    if k not in obj._properties or obj._properties[k] is not v and obj._properties[k] != v:
        return "assignment did not create/overwrite an own property on the receiver"
    if g["P"]._properties != before_p:
        return "assignment through %s changed the prototype P" % name
    if name == "O" and g["M"]._properties != before_m:
        return "assignment through O changed the prototype M"
    if vm._get_property(obj, k) is not v and vm._get_property(obj, k) != v:
        return "the value written is not the value read"
    return True


def symkey_delete(k: str, which: int) -> bool:
    pre(len(k) <= 2)
    ctx, vm, g = chain_objects()
    name = pick(which, ["O", "M"])
    obj = g[name]
    proto = obj._prototype
    inherited = model_lookup(proto, k)
    r = vm._delete_property(obj, k)
    cover("judged")
    if r is not True:
        return "delete does not report success"
    if obj.has_own(k):
        return "delete left the own property in place"
    after = model_lookup(obj, k)
    if (after is None) != (inherited is None):
        return "delete reached into the prototype chain"
    return True


def symkey_function(k: str, v: int) -> bool:
    """Function objects keep properties like any object; reserved names keep their meaning."""
    pre(len(k) <= 2 and k != "sp")
    ctx, vm, g = chain_objects()
    f = g["F"]
    import microjs.values as V
    if vm._get_property(f, k) is not V.UNDEFINED:
        return "an unknown name on a function is not undefined"
    vm._set_property(f, k, v)
    cover("judged")
    got = vm._get_property(f, k)
    if got is not v and got != v:
        return "a property written on a function does not read back"
    if not ctx_in(vm, f, k):
        return "`in` does not see a function's own property"
    if vm._delete_property(f, k) is not True or vm._get_property(f, k) is not V.UNDEFINED:
        return "delete on a function does not remove the property"
    return True


def harnesses():
    hs = []
    for op in range(NOPS):
        name = OBJS.OPS[op][0]
        hs.append(Harness(id="C08.history.1.%s" % name, fn=make_history(1, op, True), group="history.1", functions=FNS, per_path=30,
                          budget=300, replay=history_replay(1, op, True), require=("judged",),
                          bounds=["one step: operation %s on every target and key; all observations on all objects compared" % name]))
        hs.append(Harness(id="C08.history.2.%s" % name, fn=make_history(2, op, False, REP_QUICK), group="history.2", functions=FNS, per_path=30,
                          budget=600, replay=history_replay(2, op, False, REP_QUICK),
                          bounds=["two steps: %s then any of the %d operations, each on one of %d representative (target, key) pairs"
                                  % (name, NOPS, len(REP_QUICK))]))
        hs.append(Harness(id="C08.history.2rep.%s" % name, fn=make_history(2, op, False, REP_TK), group="history.2", functions=FNS, per_path=30,
                          budget=3000, tier="thorough", replay=history_replay(2, op, False, REP_TK),
                          bounds=["two steps: %s then any of the %d operations, each on one of %d representative (target, key) pairs"
                                  % (name, NOPS, len(REP_TK))]))
        hs.append(Harness(id="C08.history.2full.%s" % name, fn=make_history(2, op, True), group="history.2", functions=FNS, per_path=30,
                          budget=2400, tier="thorough", replay=history_replay(2, op, True), must_exhaust=False,
                          bounds=["two steps, every operation x target x key in both"]))
        hs.append(Harness(id="C08.history.3.%s" % name, fn=make_history(3, op, False), group="history.3", functions=FNS, per_path=30,
                          budget=1200, tier="thorough", replay=history_replay(3, op, False), must_exhaust=False,
                          bounds=["three steps (bug hunting: not exhausted within the budget)"]))
    for name, src in CALLS.call_programs():
        hs.append(Harness(id="C08.%s" % name, fn=make_call(src), group=name.split(".")[0], functions=FNS, per_path=30, budget=120,
                          require=("judged",), bounds=["program %s with A in {3, 0, -1}, B in {4, 3, 1000} (solver-indexed; the object model does not depend on the numbers)" % name]))
    hs.append(Harness(id="C08.symkey.get", fn=symkey_get, group="symkey", functions=FNS, per_path=30, budget=300, require=("judged",),
                      bounds=["get / in on O, M, P with the key any string of length <= 2"]))
    hs.append(Harness(id="C08.symkey.set", fn=symkey_set, group="symkey", functions=FNS, per_path=30, budget=60, require=("judged",), must_exhaust=False,
                      bounds=["set on O, M with the key any string of length <= 2 (not __proto__), any integer value"]))
    hs.append(Harness(id="C08.symkey.delete", fn=symkey_delete, group="symkey", functions=FNS, per_path=30, budget=300, require=("judged",),
                      bounds=["delete on O, M with the key any string of length <= 2"]))
    hs.append(Harness(id="C08.symkey.function", fn=symkey_function, group="symkey", functions=FNS, per_path=30, budget=60,
                      require=("judged",), must_exhaust=False, bounds=["set/get/in/delete on a function object, key any string of length <= 2"]))
    return hs
