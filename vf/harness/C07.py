"""C07 - exceptions unwind to the right handler; finally runs exactly once (DESIGN 4, C07)."""
from ..harness_api import Harness
from ..compat import pre, cover, known, NoTracing
from ..skel import exc as X
from ..diffrun import compare

ASSUMPTIONS = [
    "programs are the skeleton family of vf/skel/exc.py (throw site x handler placement x try shape x exit from "
    "each block x expression context); which iteration throws / exits is symbolic (C0..C2, N <= 3)",
    "error messages of runtime errors are engine-specific and not compared; class (instanceof), name and the "
    "presence of a message are",
]

FNS = ("microjs.vm.VM._throw", "microjs.vm.VM._handle_python_exception", "microjs.vm.VM._execute",
       "microjs.vm.VM._call_callback", "microjs.compiler.Compiler (try/catch/finally lowering, untraced)")


def make_prog(src):
    def h(N, C0, C1, C2):
        pre(0 <= N <= 3 and -1 <= C0 <= 3 and -1 <= C1 <= 3 and -1 <= C2 <= 3)
        return compare(src, {"N": N, "C0": C0, "C1": C1, "C2": C2})
    h.__annotations__ = {"N": int, "C0": int, "C1": int, "C2": int, "return": bool}
    return h


# ---- error classes of the engine's own runtime errors and raising built-ins -------------------------
ERRCLASS = [
    ("null.x", "TypeError"), ("undefined.x", "TypeError"), ("null.x = 1", "TypeError"), ("(void 0)()", "TypeError"),
    ("var nf = 5; nf()", "TypeError"), ("({}).m()", "TypeError"), ("new 5", "TypeError"), ("new (function(){}.bind)", None),
    ("zzz_unknown", "ReferenceError"), ("zzz_unknown + 1", "ReferenceError"), ("zzz_unknown()", "ReferenceError"),
    ("1 instanceof 5", "TypeError"), ("'a' in 5", "TypeError"),
    ("(1).toFixed(101)", "RangeError"), ("(1).toFixed(-1)", "RangeError"), ("(1).toString(1)", "RangeError"),
    ("(1).toString(37)", "RangeError"), ("(1).toPrecision(0)", "RangeError"), ("(1).toExponential(101)", "RangeError"),
    ("'a'.repeat(-1)", "RangeError"), ("'a'.repeat(Infinity)", "RangeError"), ("[].reduce(function(a, b) { return a; })", "TypeError"),
    ("[1].forEach(5)", "TypeError"), ("[3,1].sort(5)", None),
    ("JSON.parse('{')", "SyntaxError"), ("JSON.parse('')", "SyntaxError"), ("new RegExp('(')", "SyntaxError"),
    ("new RegExp('[')", "SyntaxError"), ("RegExp('*')", "SyntaxError"),
            ("(function f() { 'x'.localeCompare(); return null.y; })()", "TypeError"),
    ("(0, eval)('(')", "SyntaxError"), ("new Function('(')", "SyntaxError"), ("(0, eval)('zzz_unknown')", "ReferenceError"),
    ("var o = {get p() { return null.q; }}; o.p", "TypeError"),
    ("throw new RangeError('r')", "RangeError"), ("throw new SyntaxError('s')", "SyntaxError"),
    ("throw new EvalError('e')", "EvalError"), ("throw new URIError('u')", "URIError"), ("throw new Error('e')", "Error"),
]
# Built-ins that are *lenient* where ECMAScript throws (new Array(-1), [1].map(undefined), new RegExp('a','zz'),
# Object.create(5), Object.defineProperty(5,...), Object.setPrototypeOf(null,...), new Int8Array(-1)) are judged by
# the properties that own those built-ins (C08, C10, C17), not here: C07 is about what happens once something throws.
PLACES = {
    "top": "var r; try { %s; r = 'no error'; } catch (e) { r = D(e); } r;",
    "function": "function f() { %s; } var r; try { f(); r = 'no error'; } catch (e) { r = D(e); } r;",
    "callback": "var r; try { [1].forEach(function() { %s; }); r = 'no error'; } catch (e) { r = D(e); } r;",
    "finally": "var r; var fin = 0; try { try { %s; } finally { fin = fin + 1; } r = 'no error'; } catch (e) { r = D(e); } [r, fin];",
}
DFN = ("function D(e) { if (typeof e !== 'object' || e === null) { return ['not-an-object', typeof e]; } "
       "return [e instanceof Error, e.name, typeof e.message, e instanceof TypeError, e instanceof ReferenceError, "
       "e instanceof RangeError, e instanceof SyntaxError]; } ")


def pick(i, grid):
    pre(0 <= i < len(grid))
    for k in range(len(grid)):
        if i == k:
            return grid[k]
    raise AssertionError


def errclass(i: int, p: int) -> bool:
    expr, klass = pick(i, ERRCLASS)
    pname = pick(p, sorted(PLACES))
    if klass is None:
        pre(False)
    from ..jsrun import eval_concrete
    from microjs.errors import JSError
    import microjs.values as V
    src = DFN + PLACES[pname] % expr
    with NoTracing():
        try:
            res = eval_concrete(src)
        except JSError as e:
            return "%s [%s]: not catchable by the script: %s" % (expr, pname, e)
        fin = None
        if pname == "finally":
            fin = res._elements[1]
            res = res._elements[0]
        cover("judged")
        if not isinstance(res, V.JSArray):
            return "%s [%s]: no error was thrown (%r), ECMAScript throws %s" % (expr, pname, res, klass)
        got = list(res._elements)
        want = [True, klass, "string", klass == "TypeError", klass == "ReferenceError", klass == "RangeError",
                klass == "SyntaxError"]
        if got != want:
            return "%s [%s]: caught error looks like %r, ECMAScript: %r (instanceof Error, name, typeof message, " \
                   "instanceof TypeError/ReferenceError/RangeError/SyntaxError)" % (expr, pname, got, want)
        if fin is not None and fin != 1:
            return "%s: finally ran %r times" % (expr, fin)
    return True


# ---- uncaught throws surface as JSError describing the thrown value ----------------------------------
UNCAUGHT = [("throw 'boom'", "boom"), ("throw 42", "42"), ("throw null", "null"), ("throw undefined", "undefined"),
            ("throw true", "true"), ("throw new Error('msg')", "msg"), ("throw new TypeError('tm')", "tm"),
            ("throw {message: 'own'}", "own"), ("null.x", None), ("zzz_unknown", None), ("(void 0)()", None),
            ("function f() { throw 'inner'; } f()", "inner"),
            ("[1].forEach(function() { throw 'cb'; })", "cb"),
            ("try { throw 'a'; } finally { }", "a"), ("try { throw 'a'; } catch (e) { throw 'b'; }", "b")]


def uncaught(i: int) -> bool:
    src, text = pick(i, UNCAUGHT)
    from ..jsrun import eval_concrete
    from microjs.errors import JSError, JSSyntaxError, TimeLimitError, MemoryLimitError
    with NoTracing():
        try:
            r = eval_concrete(src)
            return "%s: evaluation returned %r, an uncaught throw must raise JSError" % (src, r)
        except (JSSyntaxError, TimeLimitError, MemoryLimitError) as e:
            return "%s: raised %s instead of a plain JSError" % (src, type(e).__name__)
        except JSError as e:
            cover("judged")
            if text is not None and text not in str(e):
                return "%s: JSError %r does not describe the thrown value %r" % (src, str(e), text)
    return True


# ---- locations shift with the program ---------------------------------------------------------------
LOCS = [
    ("throw new Error('x');", 1, 1),
    ("var o = null;\no.x;", 2, None),
    ("function f() {\n  throw new TypeError('t');\n}\nf();", 2, 3),
    ("var a = 1;\nvar b = 2;\n    throw new RangeError('r');", 3, 5),
]


def location(i: int, k: int, j: int) -> bool:
    pre(0 <= k <= 3 and 0 <= j <= 3)
    prog, line, col = pick(i, LOCS)
    kk = pick(k, [0, 1, 2, 3])
    jj = pick(j, [0, 1, 2, 3])
    from ..jsrun import eval_concrete
    import microjs.values as V
    with NoTracing():
        body = "\n" * kk + " " * jj + prog
        src = "var r;\ntry {" + body + "\n} catch (e) { r = [e.lineNumber, e.columnNumber]; } r;"
        base = "var r;\ntry {" + prog + "\n} catch (e) { r = [e.lineNumber, e.columnNumber]; } r;"
        a = eval_concrete(base)
        b = eval_concrete(src)
        cover("judged")
        if not isinstance(a, V.JSArray) or not isinstance(b, V.JSArray):
            return "no location array"
        l0, c0 = a._elements
        l1, c1 = b._elements
        if not isinstance(l0, int) or not isinstance(c0, int):
            return "%r: lineNumber/columnNumber of the caught error are %r/%r" % (prog, l0, c0)
        if l0 != line + 1:
            return "%r: lineNumber %r, the throw is on line %r" % (prog, l0, line + 1)
        if l1 != l0 + kk:
            return "%r shifted down %d lines: lineNumber %r -> %r" % (prog, kk, l0, l1)
        first_line = "\n" not in prog.split("throw")[0] and "\n" not in prog.split("o.x")[0]
        if kk == 0 and first_line and c1 != c0 + jj:
            return "%r shifted right %d columns: columnNumber %r -> %r" % (prog, jj, c0, c1)
        if kk > 0 and first_line and c1 != (c0 - len("try {")) + jj:
            return "%r moved to its own line, +%d columns: columnNumber %r -> %r" % (prog, jj, c0, c1)
    return True


def harnesses():
    hs = []
    for pid, src in X.programs():
        hs.append(Harness(id="C07.prog." + pid, fn=make_prog(src),
                          bounds=["N in [0,3], C0..C2 in [-1,3] (symbolic)", "program: " + pid],
                          per_path=30, budget=200, budget_thorough=400, require=("judged",), group="unwinding",
                          functions=FNS))
    hs.append(Harness(id="C07.errclass", fn=errclass,
                      bounds=["solver-chosen index into %d raising expressions x 4 placements" % len(ERRCLASS)],
                      per_path=30, budget=300, require=("judged",), group="error classes",
                      functions=("microjs.vm.VM._handle_python_exception", "microjs.context.Context (built-ins)")))
    hs.append(Harness(id="C07.uncaught", fn=uncaught, bounds=["index into %d uncaught-throw scripts" % len(UNCAUGHT)],
                      per_path=30, budget=100, require=("judged",), group="uncaught",
                      functions=("microjs.vm.VM._throw", "microjs.context.Context.eval")))
    hs.append(Harness(id="C07.location", fn=location,
                      bounds=["k, j in [0,3]: leading newlines / spaces (solver-chosen), 4 programs"],
                      per_path=30, budget=200, require=("judged",), group="locations",
                      functions=("microjs.vm.VM._get_source_location", "microjs.compiler.Compiler._set_loc")))
    return hs
