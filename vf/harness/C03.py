"""C03 - scripts can reach only JavaScript values, never host internals (DESIGN 4, C03)."""
import types

from ..harness_api import Harness
from ..compat import pre, cover, NoTracing
from ..skel import api as API

ASSUMPTIONS = [
    "JavaScript domain = undefined, null, booleans, numbers (int/float), strings, engine objects (JSObject and subclasses), script "
    "functions, and native functions: plain Python functions/closures, JSBoundMethod/JSCallableObject, or a callable that is part "
    "of a fresh context's own global object graph (console.log is a bound method of Context by design). Python None, lists, "
    "dicts, tuples, bytes, types, modules, compiled code, iterators, cells and bound methods of engine objects are host internals",
    "names: (a) symbolic - any string of length <= 12 (numeric-looking ones <= 4) read through the real VM._get_property/_has_property "
    "on each receiver kind; (b) a vocabulary regenerated at run time from dir() of every class and module of the engine plus the "
    "Python dunder names, used through eleven access forms in scripts; each vocabulary name must behave exactly like a fresh "
    "control name unless the receiver documents it (it resolves on a pristine receiver in ECMAScript-visible ways)",
    "value-domain sink: after each corpus/skeleton script the whole object graph reachable from the globals, the closure cells "
    "and the result is walked; every stored value must be in the JavaScript domain",
]
FNS = ("microjs.vm.VM._get_property", "microjs.vm.VM._set_property", "microjs.vm.VM._delete_property", "microjs.vm.VM._has_property",
       "microjs.vm.VM._call_function", "microjs.vm.VM._call_method", "microjs.context.Context.eval", "microjs.context.Context._to_python")


def pick(i, grid):
    pre(0 <= i < len(grid))
    for k in range(len(grid)):
        if i == k:
            return grid[k]
    raise AssertionError


def pick_range(i, n):
    pre(0 <= i < n)
    lo, hi = 0, n
    while hi - lo > 1:
        mid = (lo + hi) // 2
        if i < mid:
            hi = mid
        else:
            lo = mid
    return lo


_WL = {}


def whitelist():
    """ids of the callables that belong to a fresh context's global graph, per process."""
    if "ids" in _WL:
        return _WL["ids"]
    from microjs import Context
    ids = set()
    seen = set()

    def walk(v):
        import microjs.values as V
        if id(v) in seen:
            return
        seen.add(id(v))
        if isinstance(v, V.JSObject):
            for x in list(v._properties.values()) + list(v._getters.values()) + list(v._setters.values()):
                walk(x)
            if v._prototype is not None:
                walk(v._prototype)
            if isinstance(v, V.JSArray):
                for x in v._elements:
                    walk(x)
        elif callable(v):
            ids.add((type(v).__name__, getattr(v, "__qualname__", getattr(getattr(v, "__func__", None), "__qualname__", ""))))
    for v in Context()._globals.values():
        walk(v)
    _WL["ids"] = ids
    return ids


def domain_problem(v, depth=0):
    """None when v is a JavaScript value, else a description of the host internal."""
    import microjs.values as V
    if v is V.UNDEFINED or v is V.NULL:
        return None
    if isinstance(v, (bool, int, float, str)):
        return None
    if isinstance(v, (V.JSObject, V.JSFunction, V.JSBoundMethod)):
        return None
    if isinstance(v, (types.FunctionType, types.BuiltinFunctionType)):
        return None
    if isinstance(v, types.MethodType):
        key = (type(v).__name__, getattr(v.__func__, "__qualname__", ""))
        if key in whitelist():
            return None
        return "bound method %s of a %s" % (getattr(v.__func__, "__qualname__", "?"), type(v.__self__).__name__)
    if v is None:
        return "Python None"
    return "host value of type %s" % type(v).__name__


def graph_problem(ctx, extra=()):
    """Walk everything a script can still reach; -> None or (path, description)."""
    import microjs.values as V
    seen = set()
    todo = [("global " + k, v) for k, v in ctx._globals.items()] + [("result", v) for v in extra]
    while todo:
        path, v = todo.pop()
        p = domain_problem(v)
        if p is not None:
            return path, p
        if isinstance(v, (V.JSObject, V.JSFunction)):
            if id(v) in seen:
                continue
            seen.add(id(v))
            if len(seen) > 20000:
                return None
            if isinstance(v, V.JSFunction):
                todo.append((path + ".<properties>", v.properties))
                for i, cell in enumerate(getattr(v, "_closure_cells", None) or []):
                    todo.append((path + ".<cell %d>" % i, cell.value))
                for attr in ("_bound_this", "_lexical_this"):
                    if hasattr(v, attr):
                        todo.append((path + "." + attr, getattr(v, attr)))
                for a in getattr(v, "_bound_args", []) or []:
                    todo.append((path + ".<bound arg>", a))
                continue
            for k, x in v._properties.items():
                if not isinstance(k, str):
                    return path, "property key of type %s" % type(k).__name__
                todo.append((path + "." + k, x))
            for table in (v._getters, v._setters):
                for k, x in table.items():
                    if x is not None:
                        todo.append((path + ".<accessor " + k + ">", x))
            if isinstance(v, V.JSArray):
                for i, x in enumerate(v._elements):
                    todo.append((path + "[%d]" % i, x))
    return None


# ------------------------------------------------------------------------------------------- symbolic names through the VM
def receivers():
    """Engine objects of each receiver kind, built concretely on a fresh context."""
    with NoTracing():
        from microjs import Context
        from microjs.vm import VM
        ctx = Context()
        out = {}
        for kind, expr in API.RECEIVERS:
            out[kind] = ctx._to_js_raw(expr) if hasattr(ctx, "_to_js_raw") else _raw(ctx, expr)
        vm = VM()
        vm.globals = ctx._globals
        return ctx, vm, out


def _raw(ctx, expr):
    from microjs.parser import Parser
    from microjs.compiler import Compiler
    from microjs.vm import VM
    vm = VM()
    vm.globals = ctx._globals
    return vm.run(Compiler().compile(Parser("(" + expr + ");").parse()))


_TABLE = {}


def documented(kind):
    """Names that resolve on a pristine receiver of this kind (probed concretely over the candidate vocabulary)."""
    if kind not in _TABLE:
        import microjs.values as V
        ctx, vm, rs = receivers()
        names = set()
        own = []
        o = vm._property_holder(rs[kind])
        while o is not None:
            own += list(o._properties) + list(o._getters) + list(o._setters)
            o = o._prototype
        for n in API.candidate_names() + ["length", "constructor", "__proto__", "prototype", "name"] + own:
            try:
                if vm._get_property(rs[kind], n) is not V.UNDEFINED:
                    names.add(n)
            except Exception:  # noqa: BLE001
                names.add(n)
        _TABLE[kind] = names
    return _TABLE[kind]


def make_symname(kind, maxlen):
    def symname_case(k: str) -> bool:
        pre(len(k) <= maxlen)
        with NoTracing():
            known = documented(kind)
        import microjs.values as V
        ctx, vm, rs = receivers()
        r = rs[kind]
        pre(k not in known)
        # numeric-looking names address elements/characters
        pre(not (len(k) > 0 and all(48 <= ord(ch) <= 57 for ch in k)))
        got = vm._get_property(r, k)
        cover("judged")
        if got is not V.UNDEFINED:
            return "an undocumented name resolves on a %s receiver" % kind
        holder = vm._property_holder(r)
        if holder is not None and vm._has_property(r, holder, k):
            return "`in` finds an undocumented name on a %s receiver" % kind
        return True
    return symname_case


def vocabulary():
    """Implementation names: every attribute of every class/module of the engine plus the Python dunder vocabulary."""
    import microjs
    import microjs.values as V
    import microjs.vm as M
    import microjs.compiler as C
    import microjs.context as X
    names = set()
    for mod in (V, M, C, X, microjs):
        names.update(dir(mod))
        for obj in vars(mod).values():
            if isinstance(obj, type):
                names.update(dir(obj))
                try:
                    inst_attrs = obj.__init__.__code__.co_names
                    names.update(inst_attrs)
                except Exception:  # noqa: BLE001
                    pass
    names.update(["__class__", "__dict__", "__globals__", "__builtins__", "__code__", "__closure__", "__func__", "__self__", "__mro__",
                  "__subclasses__", "__bases__", "__init__", "__new__", "__getattribute__", "__getattr__", "__setattr__", "__call__",
                  "__module__", "__name__", "__qualname__", "__doc__", "__import__", "__reduce__", "__reduce_ex__", "__getitem__",
                  "_prototype", "_properties", "_elements", "_getters", "_setters", "_call_fn", "_fn", "_compiled", "_closure_cells",
                  "_bound_this", "_bound_args", "_original_func", "_lexical_this", "_data", "_buffer", "_internal", "_globals",
                  "_current_vm", "bytecode", "constants", "closure_vars", "params", "properties", "func", "locals", "stack", "call_stack",
                  "globals", "f_globals", "gi_frame", "cr_frame", "func_globals", "im_self", "im_func"])
    import re
    return sorted(n for n in names if re.fullmatch(r"[A-Za-z_$][A-Za-z0-9_$]*", n))


ACCESS = """
var out = [];
function t(f) { try { var v = f(); out.push(typeof v === 'function' ? 'function' : (v === null || typeof v !== 'object') ? String(v) : 'object'); } catch (e) { out.push('E:' + e.name); } }
t(function () { return R[K]; });
t(function () { return typeof R[K]; });
t(function () { return R[K](); });
t(function () { return R[K] === undefined; });
t(function () { return K in Object(R) ; });
t(function () { return Object.prototype.hasOwnProperty.call(R, K); });
t(function () { var ks = []; for (var k in R) { ks.push(k); } return ks.indexOf(K); });
t(function () { return Object.keys(Object(R)).indexOf(K); });
t(function () { return new R[K](); });
t(function () { return R instanceof Object && (R[K] instanceof Object); });
t(function () { var o = Object.create(typeof R === 'object' && R !== null ? R : {}); return o[K]; });
t(function () { return JSON.stringify(R) === JSON.stringify(R0); });
t(function () { var W = MK(); W[K] = 7; var back = W[K]; delete W[K]; return [back === 7 || typeof W !== 'object', W[K] === undefined || typeof W !== 'object'].join(); });
t(function () { return delete R[K]; });
out.join('|');
"""


def make_vocab(kind, rexpr):
    def vocab_case(i):
        with NoTracing():
            voc = vocabulary()
            known = documented(kind)
        k = pick_range(i, len(voc))
        with NoTracing():
            name = voc[k]
            if name in known:
                return True
            from microjs import Context

            def run(key):
                ctx = Context(time_limit=2.0)
                ctx.eval("function MK() { return %s; } var R = MK(), R0 = MK(), K = %r;" % (rexpr, key))
                res = ctx.eval(ACCESS)
                gp = graph_problem(ctx)
                return res, gp
            got, gp = run(name)
            want, _ = run("zq" + "x" * max(0, len(name) - 2))
            cover("judged")
            if gp is not None:
                return "after probing %r on a %s: %s holds a %s" % (name, kind, gp[0], gp[1])
            if got != want:
                return "name %r on a %s receiver behaves unlike a fresh name: %s vs %s" % (name, kind, got, want)
        return True
    vocab_case.__annotations__ = {"i": int, "return": bool}
    return vocab_case


# ------------------------------------------------------------------------------------------- value domain after scripts
def make_graph(src, data):
    def graph_case(n, c0, c1):
        pre(0 <= n <= 3 and 0 <= c0 <= 3 and 0 <= c1 <= 3)
        nn = pick(n, [0, 1, 2, 3])
        a, b = pick(c0, [0, 1, 2, 3]), pick(c1, [0, 1, 2, 3])
        with NoTracing():
            from microjs import Context
            from microjs.errors import JSError
            ctx = Context(time_limit=2.0)
            log = []
            ctx._globals["log"] = lambda *args: log.append(args)
            ctx._globals["probe"] = lambda *args: None
            ctx._globals["pr"] = lambda *args: None
            for k, v in (("N", nn), ("C0", a), ("C1", b), ("C2", 1), ("K", nn), ("A", a), ("B", b)):
                ctx._globals[k] = v
            res = []
            try:
                from ..jsrun import compile_js, run_compiled
                res.append(run_compiled(ctx, compile_js(src), max_steps=200000))
            except JSError:
                pass
            cover("judged")
            for entry in log:
                for v in entry:
                    p = domain_problem(v)
                    if p is not None:
                        return "a host function received a %s" % p
            gp = graph_problem(ctx, res)
            if gp is not None:
                return "%s holds a %s" % gp
        return True
    graph_case.__annotations__ = {"n": int, "c0": int, "c1": int, "return": bool}
    return graph_case


# ------------------------------------------------------------------------------------------- abrupt exits inside value contexts
EXIT_BODIES = {
    "forin-return": "for (var k in O) { if (k === 'b') { return; } }",
    "forin-return-value": "for (var k in O) { if (k === 'b') { return 7; } }",
    "forin-return-object": "for (var k in O) { if (k === 'b') { return {r: k}; } }",
    "forof-return": "for (var v of A) { if (v === 2) { return; } }",
    "forof-return-value": "for (var v of A) { if (v === 2) { return v; } }",
    "nested-loops-return": "for (var k in O) { for (var v of A) { if (v === 2) { return k; } } }",
    "forin-break": "for (var k in O) { if (k === 'b') { break; } } return 5;",
    "forof-continue": "for (var v of A) { if (v === 2) { continue; } this.last = v; }",
    "try-finally-return": "for (var k in O) { try { return 1; } finally { this.f = k; } }",
    "caught-throw": "for (var v of A) { try { null.x; } catch (e) { return e.name; } }",
    "switch-return": "for (var k in O) { switch (k) { case 'b': return 3; default: this.d = k; } }",
    "falls-off": "for (var k in O) { this[k] = 1; }",
}
EXIT_CALLS = {
    "new": "new F(O)", "call": "F(O)", "method": "H.m(O)", "new-method": "new H.m(O)", "call-call": "F.call(T, O)", "apply": "F.apply(T, [O])",
    "bound-new": "new (F.bind(null))(O)", "callback": "[1].map(function () { return new F(O); })[0]", "getter": "G.g",
}
EXIT_CONTEXTS = {
    "array": "[10, %s, 30]", "args": "id(10, %s, 30)", "object": "({a: 10, b: %s, c: 30})", "binary": "[10 + (typeof %s).length, 30]",
    "nested-array": "[[10, [%s]], 30]", "sequence": "(10, %s, 30)", "conditional": "[10, true ? %s : 0, 30]", "new-args": "new Box(10, %s, 30)",
}


def exit_program(body, call, context):
    return ("var O = {a: 1, b: 2, c: 3}, A = [1, 2, 3], T = {t: 1};\n"
            "function F(o) { %s }\n"
            "var H = {m: F}; var G = {get g() { return new F(O); }};\n"
            "function id(x, y, z) { return [x, y, z]; } function Box(x, y, z) { this.x = x; this.y = y; this.z = z; }\n"
            "var R = %s; log('r', R); R;" % (body, context % call))


def make_exits(body_name, call_name):
    def exits_case(c):
        ctx_name = pick(c, sorted(EXIT_CONTEXTS))
        with NoTracing():
            from .. import diffrun
            src = exit_program(EXIT_BODIES[body_name], EXIT_CALLS[call_name], EXIT_CONTEXTS[ctx_name])
            r = diffrun.compare(src, {}, max_steps=50000)
            if r is not True:
                return "%s / %s / %s: %s" % (body_name, call_name, ctx_name, r)
            log, out, ctx = diffrun.run_engine(src, {}, max_steps=50000)
            cover("judged")
            res = []
            for entry in log:
                for v in entry:
                    p = deep_problem(v)
                    if p is not None:
                        return "%s / %s / %s: the logged value holds a %s" % (body_name, call_name, ctx_name, p)
            ctx._globals.pop("log", None)
            ctx._globals.pop("pr", None)
            gp = graph_problem(ctx)
            if gp is not None:
                return "%s / %s / %s: %s holds a %s" % (body_name, call_name, ctx_name, gp[0], gp[1])
        return True
    exits_case.__annotations__ = {"c": int, "return": bool}
    return exits_case


def deep_problem(v, depth=0):
    """domain_problem through snapshot tuples / engine containers."""
    import microjs.values as V
    if isinstance(v, tuple):
        for x in v[1:]:
            p = deep_problem(x, depth + 1)
            if p is not None:
                return p
        return None
    return domain_problem(v)


# ------------------------------------------------------------------------------------------- host functions run only when called
NO_CALL_FORMS = [
    "var x = H;", "var o = {h: H}; o.h;", "[H, H].length;", "typeof H;", "H.name;", "H.length;", "'' + H;", "H + 1;", "H == 1;", "H === H;",
    "String(H);", "JSON.stringify(H);", "JSON.stringify({h: H});", "for (var k in H) {}", "Object.keys(H);", "H instanceof Object;",
    "[H].join();", "[H, 1].sort();", "[H].indexOf(H);", "H.prototype;", "H.call;", "H.bind(null);", "var b = H.bind(null, 1); typeof b;",
    "Object.getPrototypeOf(H);", "H.toString;", "!H;", "H ? 1 : 2;", "var o = Object.create({m: H}); o.m;", "(function (f) { return f; })(H);",
    "try { null.x; } catch (e) { H; }", "var a = []; a.push(H); a.pop();", "({valueOf: H}).valueOf;", "[1, 2].map(function (x) { return H; });",
    "Object.defineProperty({}, 'p', {value: H}).p;", "switch (H) { case 1: break; }", "delete H.p;", "'p' in H;", "H.p = 1; H.p;",
    "isNaN(H);", "parseInt(H);", "Math.max(H);", "new Error(H);", "'abc'.replace('b', 'x' + typeof H);", "eval('H');", "[H].concat([H]).length;",
]
CALL_FORMS = ["H(A, B);", "H.call(null, A, B);", "H.apply(null, [A, B]);", "H.bind(null, A)(B);", "var o = {h: H}; o.h(A, B);",
              "[A].forEach(function (v) { H(v, B); });", "new Function('a', 'b', 'return H(a, b);')(A, B);", "eval('H(A, B)');"]


def nocall_case(i: int) -> bool:
    form = pick(i, NO_CALL_FORMS)
    with NoTracing():
        from microjs import Context
        from microjs.errors import JSError
        calls = []
        ctx = Context(time_limit=2.0)
        ctx.set("H", lambda *a: calls.append(a) or 1)
        try:
            ctx.eval(form)
        except JSError:
            pass
        cover("judged")
        if calls:
            return "%r runs the exposed host function although the script never calls it" % form
    return True


def call_case(i: int, a: int, s: str) -> bool:
    pre(len(s) <= 2)
    form = pick(i, CALL_FORMS)
    from microjs import Context
    calls = []
    ctx = new_ctx()
    ctx.set("H", lambda *x: calls.append(x) or 1)
    ctx.set("A", a)
    ctx.set("B", s)
    ctx.eval(form)
    cover("judged")
    if len(calls) != 1:
        return "one explicit call runs the host function %d times" % len(calls)
    got = calls[0]
    if len(got) != 2 or not (got[0] is a or got[0] == a) or not (got[1] is s or got[1] == s):
        return "the host function does not receive the script's arguments"
    return True


def new_ctx():
    with NoTracing():
        from microjs import Context
        return Context()


def harnesses():
    hs = []
    for kind, rexpr in API.RECEIVERS:
        quick = kind in ("object", "array", "function", "string", "int", "regex", "uint8", "error", "native", "bound", "arguments", "buffer")
        hs.append(Harness(id="C03.symname.%s" % kind, fn=make_symname(kind, 4), group="symname", functions=FNS, per_path=60, budget=300,
                          require=("judged",), tier="quick" if quick else "thorough", must_exhaust=False,
                          bounds=["receiver %s (%s); the property name is any string of length <= 4 outside the receiver's documented "
                                  "table: must read as undefined and not be `in`" % (kind, rexpr)]))
        hs.append(Harness(id="C03.symname12.%s" % kind, fn=make_symname(kind, 12), group="symname", functions=FNS, per_path=60, budget=900,
                          require=("judged",), tier="thorough", must_exhaust=False,
                          bounds=["as symname with names of length <= 12 (bug hunting)"]))
        hs.append(Harness(id="C03.vocab.%s" % kind, fn=make_vocab(kind, rexpr), group="vocab", functions=FNS, per_path=60, budget=1500,
                          require=("judged",), tier="quick" if quick else "thorough",
                          bounds=["receiver %s; every implementation/Python attribute name (vocabulary regenerated from dir() of the engine's "
                                  "classes and modules) through 14 access forms must behave exactly like a fresh name, and leave no host "
                                  "value in the reachable object graph" % kind]))
    from ..skel import corpus as CORPUS
    progs = [("snip%02d" % i, s) for i, s in enumerate(CORPUS.SNIPPETS)] + [("skel." + n, s) for n, s in CORPUS.skeleton_programs()[::5]]
    from ..skel import calls as CALLS
    progs += [("c08." + n, s) for n, s in CALLS.call_programs()[::3]]
    for n, s in progs:
        hs.append(Harness(id="C03.graph.%s" % n, fn=make_graph(s, None), group="graph", functions=FNS, per_path=30, budget=300,
                          require=("judged",), tier="quick" if (n.startswith("snip") or hash(n) % 3 == 0 or True) else "thorough",
                          bounds=["program %s with loop bound and selectors in 0..3: afterwards every value reachable from the globals, "
                                  "closure cells and the result, and every argument a host function received, is a JavaScript value" % n]))
    for bn in EXIT_BODIES:
        for cn in EXIT_CALLS:
            hs.append(Harness(id="C03.exits.%s.%s" % (bn, cn), fn=make_exits(bn, cn), group="exits", functions=FNS, per_path=30, budget=300,
                              require=("judged",),
                              bounds=["a function leaving by %s, invoked as %s, inside each of %d value contexts (array/object literal, "
                                      "arguments, operands): result and log equal the definitional interpreter's, nothing is left on the "
                                      "operand stack, and every reachable value is a JavaScript value" % (bn, EXIT_CALLS[cn], len(EXIT_CONTEXTS))]))
    hs.append(Harness(id="C03.host.nocall", fn=nocall_case, group="host", functions=FNS, per_path=30, budget=300, require=("judged",),
                      bounds=["%d script forms that hold, convert, compare, enumerate and pass an exposed host function without calling it: "
                              "its call counter stays 0" % len(NO_CALL_FORMS)]))
    hs.append(Harness(id="C03.host.call", fn=call_case, group="host", functions=FNS, per_path=60, budget=300, require=("judged",),
                      bounds=["%d explicit call forms: exactly one invocation with the script's (symbolic int, symbolic string) arguments"
                              % len(CALL_FORMS)]))
    return hs
