"""C16 - String methods follow ECMAScript for every argument shape (DESIGN 4, C16)."""
from ..harness_api import Harness
from ..compat import pre, cover, known, NoTracing
from ..refsem import strings as S
from ..refsem import ops as R
from ..refsem.num import UNDEF, NULL, Unspecified
from .. import domains as D

ASSUMPTIONS = [
    "receiver: every string up to the length bound over the BMP (characters beyond U+FFFF are excluded: the engine "
    "stores code points, see the recorded finding on UTF-16 lengths); search strings up to length 2",
    "position-like arguments: symbolic integers in [-6, 6] in the 'sym' family, solver-chosen indices into a pinned "
    "adversarial grid (missing, undefined, null, NaN, +-Infinity, -0, fractions, 2**31, 2**32+1, 2**53, 1e21, numeric "
    "and junk strings, booleans) in the 'grid' family",
    "case mapping is judged for ASCII receivers only (documented engine restriction)",
    "the reference is ECMA-262 22.1.3 transcribed in vf/refsem/strings.py (calibrated against node on 23540 calls)",
]
FNS = ("microjs.vm.VM._make_string_method", "microjs.vm.VM._get_property (string receivers)", "microjs.values.to_integer")
NAN, INF = float("nan"), float("inf")
POS_GRID = ["<missing>", UNDEF, NULL, NAN, INF, -INF, -0.0, 0, 1, 2, 3, -1, -2, -7, 0.5, 1.5, -1.5, 2 ** 31, 2 ** 32 + 1,
            2 ** 53, 1e21, "1", "2", "x", "", True, False]
STR_GRID = ["<missing>", UNDEF, NULL, "", "a", "b", "ab", 1, True, "undefined"]
MISSING = "<missing>"


def pick(i, grid):
    pre(0 <= i < len(grid))
    for k in range(len(grid)):
        if i == k:
            return grid[k]
    raise AssertionError


def bmp(s):
    for ch in s:
        if ord(ch) > 0xFFFF:
            return False
    return True


def call_engine(name, s, args):
    from microjs.vm import VM
    fn = VM()._make_string_method(s, name)
    return fn(*[D.to_engine(a) for a in args])


def to_cmp(v):
    """engine result -> refsem-comparable"""
    import microjs.values as V
    if isinstance(v, V.JSArray):
        return [to_cmp(e) for e in v._elements]
    return v


def judge(name, s, args, show_args):
    from microjs.errors import JSError
    try:
        want = S.METHODS[name](s, list(args))
        wthrow = None
    except S.Throw as t:
        want, wthrow = None, t.name
    except Unspecified:
        cover("unjudged-by-oracle")
        try:
            call_engine(name, s, args)
        except JSError:
            pass
        return True
    try:
        got = to_cmp(call_engine(name, s, args))
        gthrow = None
    except JSError as e:
        got, gthrow = None, e.name
    cover("judged")
    what = lambda: "%s.%s(%s)" % (D.show(s), name, show_args())
    if wthrow or gthrow:
        if wthrow != gthrow:
            return "%s: engine %s, ECMAScript %s" % (what(), "throws " + gthrow if gthrow else D.show(got),
                                                     "throws " + wthrow if wthrow else D.show(want))
        return True
    if isinstance(want, list):
        if not isinstance(got, list) or len(got) != len(want):
            return "%s: engine %s, ECMAScript %s" % (what(), got, want)
        for a, b in zip(got, want):
            if not D.same(a, b):
                return "%s: engine %s, ECMAScript %s" % (what(), got, want)
        return True
    if not D.same(got, want):
        return "%s: engine %s, ECMAScript %s" % (what(), D.show(got), D.show(want))
    return True


def make_sym(name, slen, rng=6):
    shape = S.SHAPES[name]
    two_pos = len([k for k in shape if k == "pos"]) == 2

    def h(s, t, p, q):
        pre(len(s) <= slen and bmp(s) and len(t) <= 2 and bmp(t) and -rng <= p <= rng and -rng <= q <= rng)
        if two_pos or name == "repeat":
            # slicing / repetition with two solver variables at once defeats the solver: the positions are
            # solver-chosen but concrete on each path, the receiver stays fully symbolic
            span = list(range(-rng, rng + 1))
            p = pick(p + rng, span)
            q = pick(q + rng, span)
        args = []
        ints = [p, q]
        for k in shape:
            if k == "str":
                args.append(t)
            elif k == "any":
                args.append(t if not args else ints[0])
            else:
                args.append(ints.pop(0))
        if "str" not in shape and "any" not in shape:
            pre(t == "")
        if len([k for k in shape if k in ("pos", "lim", "count")]) < 2:
            pre(q == 0)
        if len([k for k in shape if k in ("pos", "lim", "count")]) < 1 and name != "concat":
            pre(p == 0)
        if name == "repeat":
            pre(p <= 3)
        return judge(name, s, args, lambda: ", ".join(D.show(a) for a in args))
    h.__annotations__ = {"s": str, "t": str, "p": int, "q": int, "return": bool}
    return h


def make_grid(name, slen):
    shape = S.SHAPES[name]

    def h(s, i, j):
        pre(len(s) <= slen and bmp(s))
        grids = [STR_GRID if k in ("str", "any") else POS_GRID for k in shape]
        idx = [i, j]
        args = []
        for n, g in enumerate(grids):
            v = pick(idx[n], g)
            if v is MISSING or (args and args[-1] is MISSING):
                args.append(MISSING)
            else:
                args.append(v)
        for n in range(len(grids), 2):
            pre(idx[n] == 0)
        while args and args[-1] is MISSING:
            args.pop()
        if MISSING in args:
            pre(False)
        if name == "repeat" and args:
            a0 = args[0]
            pre(not (isinstance(a0, (int, float)) and not isinstance(a0, bool) and a0 == a0 and 8 < abs(a0) < INF))
        return judge(name, s, args, lambda: ", ".join(D.show(a) for a in args))
    h.__annotations__ = {"s": str, "i": int, "j": int, "return": bool}
    return h


CASE_ALPHABET = ["a", "z", "A", "Z", "m", "M", "0", "_", " ", "@", "[", "`", "{", "é", "ß", "İ"]


def make_case(name):
    def h(n, i0, i1, i2):
        pre(0 <= n <= 3)
        idx = [i0, i1, i2]
        chars = []
        for j in range(3):
            if j < n:
                chars.append(pick(idx[j], CASE_ALPHABET))
            else:
                pre(idx[j] == 0)
        with NoTracing():
            return judge(name, "".join(chars), [], lambda: "")
    h.__annotations__ = {"n": int, "i0": int, "i1": int, "i2": int, "return": bool}
    return h


def access(s: str, k: int) -> bool:
    """length and index access on string receivers (through the real _get_property)."""
    pre(len(s) <= 3 and bmp(s) and -2 <= k <= 4)
    from microjs.vm import VM
    import microjs.values as V
    vm = VM()
    n = vm._get_property(s, "length")
    cover("judged")
    if not (isinstance(n, int) and n == len(s)):
        return "%s.length: engine %s" % (D.show(s), D.show(n))
    for key in (k, str(k)):
        got = vm._get_property(s, key)
        want = s[k] if 0 <= k < len(s) else None
        if want is None:
            if got is not V.UNDEFINED:
                return "%s[%r]: engine %s, ECMAScript undefined" % (D.show(s), key, D.show(got))
        elif got != want:
            return "%s[%r]: engine %s, ECMAScript %s" % (D.show(s), key, D.show(got), D.show(want))
    return True


ERRS = [("'a'.repeat(-1)", "RangeError"), ("'a'.repeat(Infinity)", "RangeError"), ("'ab'.repeat(-0.5)", None),
        ("'a'.startsWith(/a/)", "TypeError"), ("'a'.endsWith(/a/)", "TypeError"), ("'a'.includes(/a/)", "TypeError"),
        ("'abc'.replaceAll(/b/, 'x')", "TypeError"), ("'a'.repeat(2)", None), ("'abc'.charAt(NaN)", None),
        ("'abc'.slice(undefined, Infinity)", None), ("'abc'.substring(NaN, -Infinity)", None), ("'abc'.indexOf('c', 1e21)", None)]


def errors(i: int) -> bool:
    expr, klass = pick(i, ERRS)
    with NoTracing():
        from ..jsrun import eval_concrete
        from microjs.errors import JSError
        try:
            r = eval_concrete("var o; try { %s; o = 'no error'; } catch (e) { o = e.name; } o" % expr)
        except JSError as e:
            return "%s: not catchable: %s" % (expr, e)
        cover("judged")
        want = klass or "no error"
        if r != want:
            return "%s: script sees %r, ECMAScript %r" % (expr, r, want)
    return True


def harnesses():
    hs = []
    for name in S.METHODS:
        shape = S.SHAPES[name]
        two_pos = len([k for k in shape if k == "pos"]) == 2
        case = name in ("toLowerCase", "toUpperCase")
        trimmy = name.startswith("trim")
        if trimmy:
            hs.append(Harness(id="C16.sym3.%s" % name, fn=make_sym(name, 3), bounds=["receiver: every BMP string of length <= 3"],
                              per_path=120, budget=900, tier="thorough", require=("judged",), group="symbolic", functions=FNS))
        hs.append(Harness(id="C16.sym.%s" % name, fn=make_sym(name, 2 if (two_pos or trimmy) else 3, 3 if two_pos else 6),
                          bounds=["receiver: every BMP string of length <= %d; search string length <= 2; integer positions in "
                                  "[-%d, %d]" % ((2, 3, 3) if two_pos else (3, 6, 6))],
                          per_path=120, budget=60 if case else 400, budget_thorough=300 if case else 1200,
                          require=("judged",), group="symbolic", functions=FNS, must_exhaust=not case))
        if case:
            hs.append(Harness(id="C16.alphabet.%s" % name, fn=make_case(name),
                              bounds=["receiver: length <= 3 over a pinned alphabet (ASCII letters, digits, punctuation, a few non-ASCII)"],
                              per_path=60, budget=300, require=("judged",), group="case mapping", functions=FNS))
        if shape:
            hs.append(Harness(id="C16.grid.%s" % name, fn=make_grid(name, 2),
                              bounds=["receiver: every BMP string of length <= 2; arguments: indices into the adversarial grids"],
                              per_path=60, budget=600, budget_thorough=1800, require=("judged",), group="argument grid", functions=FNS))
    hs.append(Harness(id="C16.access", fn=access, bounds=["receiver length <= 3 (BMP), index in [-2, 4] as number and as string"],
                      per_path=30, budget=200, require=("judged",), group="length/index", functions=FNS))
    hs.append(Harness(id="C16.errors", fn=errors, bounds=["index into %d expressions" % len(ERRS)], per_path=30, budget=100,
                      require=("judged",), group="error classes", functions=FNS))
    return hs
