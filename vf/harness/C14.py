"""C14 - program size never changes meaning: big programs run right or are refused (DESIGN 4, C14)."""
from ..harness_api import Harness
from ..compat import pre, cover, known, NoTracing
from ..stubs import GrowList

ASSUMPTIONS = [
    "kernels: operand / jump target / code size symbolic in [0, 2**20]; sizes beyond 2**20 bytes are outside the claim",
    "program level: the byte size of each shape template is affine in its scale parameter n (coefficients measured "
    "by compiling n = 1, 2, 3 and checked against n = 4, 10); z3 solves for the n that crosses each encoding "
    "boundary; the real eval is replayed at those n and beyond and compared with the closed form",
]

ONE_BYTE = ["LOAD_CONST", "LOAD_NAME", "STORE_NAME", "LOAD_LOCAL", "STORE_LOCAL", "LOAD_CLOSURE", "STORE_CLOSURE",
            "LOAD_CELL", "STORE_CELL", "CALL", "CALL_METHOD", "NEW", "BUILD_ARRAY", "BUILD_OBJECT", "BUILD_REGEX",
            "MAKE_CLOSURE", "TYPEOF_NAME"]
TWO_BYTE = ["JUMP", "JUMP_IF_FALSE", "JUMP_IF_TRUE", "TRY_START"]
LIMIT = 2 ** 20


def _decode(code):
    """The real decoder (VM._fetch) on a frame holding `code`."""
    from microjs.vm import VM, CallFrame
    from microjs.compiler import CompiledFunction
    from microjs.values import UNDEFINED
    fn = CompiledFunction(name="k", params=[], bytecode=code, constants=[], locals=[], num_locals=0)
    frame = CallFrame(func=fn, ip=0, bp=0, locals=[], this_value=UNDEFINED)
    vm = VM()
    if hasattr(vm, "_fetch"):
        op, arg = vm._fetch(frame)
        return op, arg, frame.ip
    raise AssertionError("VM has no _fetch decoder")


def make_emit(opname, wide):
    def h(arg):
        pre(0 <= arg <= LIMIT)
        from microjs.compiler import Compiler
        from microjs.opcodes import OpCode
        from microjs.errors import JSError
        c = Compiler()
        try:
            c._emit(OpCode[opname], arg)
        except JSError:
            cover("refused")
            return True
        code = c.bytecode
        for x in code:
            if not (0 <= x < 256):
                return "%s %r: emitted element %r violates the precondition of bytes()" % (opname, arg, x)
        op, got, ip = _decode(code)
        cover("encoded")
        if op != OpCode[opname] or got != arg or ip != len(code):
            return "%s %r decodes as %s %r (ip %r of %r)" % (opname, arg, op.name, got, ip, len(code))
        return True
    h.__annotations__ = {"arg": int, "return": bool}
    return h


def make_patch(opname, explicit):
    """_emit_jump then _patch_jump, with the current code size (implicit target) or an explicit target symbolic."""
    def h(size):
        pre(3 <= size <= LIMIT)
        from microjs.compiler import Compiler
        from microjs.opcodes import OpCode
        from microjs.errors import JSError
        c = Compiler()
        pos = c._emit_jump(OpCode[opname])
        real = c.bytecode
        try:
            if explicit:
                c._patch_jump(pos, size)
            else:
                c.bytecode = GrowList(size - 3, real)     # the code buffer has grown to `size` bytes
                c._patch_jump(pos)
        except JSError:
            cover("refused")
            return True
        code = list.__getitem__(c.bytecode, slice(0, 3)) if not explicit else real[:3]
        for x in code:
            if not (0 <= x < 256):
                return "%s -> %r: patched element %r violates the precondition of bytes()" % (opname, size, x)
        op, got, _ip = _decode(code)
        cover("encoded")
        if got != size:
            return "%s patched to %r decodes as a jump to %r" % (opname, size, got)
        return True
    h.__annotations__ = {"size": int, "return": bool}
    return h


# ---- program level ------------------------------------------------------------------------------------
def t_loop(n):
    return "var s = 0; for (var i = 0; i < 3; i++) { " + "s += 1; " * n + "} s", 3 * n


def t_if(n):
    return "var s = 0; if (s === 0) { " + "s += 1; " * n + "} else { s = -1; } s += 2; s", n + 2


def t_else(n):
    return "var s = 0; if (s !== 0) { s = -1; } else { " + "s += 2; " * n + "} s", 2 * n


def t_while_break(n):
    return "var s = 0; while (true) { " + "s += 1; " * n + "break; } s", n


def t_switch(n):
    return ("var s = 0; switch (1) { case 0: " + "s += 5; " * n + "break; case 1: s += 7; break; default: s = -1; } s"), 7


def t_try(n):
    return "var s = 0; try { " + "s += 1; " * n + "throw 1; } catch (e) { s += 1000; } s", n + 1000


def t_function(n):
    return "function f(a) { var s = a; if (a > 0) { " + "s += 1; " * n + "} return s; } f(1) + f(0)", n + 1


def t_consts(n):
    return "var s = 0; " + " ".join("s += %d.5;" % i for i in range(n)) + " s", sum(i + 0.5 for i in range(n))


def t_locals(n):
    return ("function f() { " + " ".join("var v%d = %d;" % (i, i) for i in range(n)) + " return v0 + v%d; } f()" % (n - 1)), n - 1


def t_params(n):
    ps = ", ".join("p%d" % i for i in range(n))
    return "function f(%s) { return p0 + p%d; } f(%s)" % (ps, n - 1, ", ".join(str(i) for i in range(n))), n - 1


def t_args(n):
    return "function f() { return arguments.length; } f(%s)" % ", ".join("1" for _ in range(n)), n


def t_array(n):
    return "[" + ", ".join("1" for _ in range(n)) + "].length", n


def t_object(n):
    return "var o = {" + ", ".join("k%d: 1" % i for i in range(n)) + "}; Object.keys(o).length", n


def t_globals(n):
    return " ".join("var g%d = %d;" % (i, i) for i in range(n)) + " g0 + g%d" % (n - 1), n - 1


def t_functions(n):
    return " ".join("function h%d() { return %d; }" % (i, i) for i in range(n)) + " h0() + h%d()" % (n - 1), n - 1


TEMPLATES = {"loop": t_loop, "if": t_if, "else": t_else, "while-break": t_while_break, "switch": t_switch,
             "try": t_try, "function": t_function, "consts": t_consts, "locals": t_locals, "params": t_params,
             "args": t_args, "array": t_array, "object": t_object, "globals": t_globals, "functions": t_functions}
COUNT_TEMPLATES = ("consts", "locals", "params", "args", "array", "object", "globals", "functions")
SIZE_TEMPLATES = ("loop", "if", "else", "while-break", "switch", "try", "function")


def boundary_ns(name, big):
    """Scale parameters around every encoding boundary of template `name` (solved with z3 from the measured
    affine size model for the size templates; the count templates cross at n = 255/256 directly)."""
    if name in COUNT_TEMPLATES:
        ns = [200, 254, 255, 256, 257, 258, 300, 1000]
        return ns if big else ns[:7]
    try:
        import z3
    except ImportError:
        z3 = None
    from microjs.parser import Parser
    from microjs.compiler import Compiler

    def size(n):
        f = Compiler().compile(Parser(TEMPLATES[name](n)[0]).parse())
        total = len(f.bytecode)
        for c in f.constants:
            if hasattr(c, "bytecode"):
                total = max(total, len(c.bytecode))
        return total
    s1, s2, s3 = size(1), size(2), size(3)
    a, b = s2 - s1, s1 - (s2 - s1)
    assert s3 == 3 * a + b and size(4) == 4 * a + b and size(10) == 10 * a + b, "size of %s is not affine" % name
    n0 = (65535 - b) // a + 1           # closed form, used as is on the solver-less 3.12 re-run
    if z3 is not None:
        n = z3.Int("n")
        o = z3.Optimize()
        o.add(n >= 1, a * n + b > 65535)
        o.minimize(n)
        assert o.check() == z3.sat and o.model()[n].as_long() == n0
    h0 = (32767 - b) // a + 1          # first n whose size needs the 16th bit (signed/unsigned slips)
    ns = [h0 - 1, h0, h0 + 1, (h0 + n0) // 2, n0 - 2, n0 - 1, n0, n0 + 1, n0 + 40]
    if big:
        ns += [2 * n0, 4 * n0]
    return ns


def make_program(name, big):
    def h(k):
        with NoTracing():
            ns = boundary_ns(name, big)
        pre(0 <= k < len(ns))
        n = None
        for i in range(len(ns)):
            if k == i:
                n = ns[i]
        from ..jsrun import NoTracing as _NT
        from microjs import Context
        from microjs.errors import JSError
        with NoTracing():
            src, want = TEMPLATES[name](n)
            try:
                got = Context().eval(src)
            except JSError as e:
                cover("refused")
                return True
            cover("ran")
            if got != want:
                return "template %s at n=%d: result %r, closed form %r" % (name, n, got, want)
        return True
    h.__annotations__ = {"k": int, "return": bool}
    return h


def harnesses():
    hs = []
    fns = ("microjs.compiler.Compiler._emit", "microjs.compiler.Compiler._emit_jump",
           "microjs.compiler.Compiler._patch_jump", "microjs.vm.VM._fetch")
    for op in ONE_BYTE:
        hs.append(Harness(id="C14.emit." + op, fn=make_emit(op, False), bounds=["operand: any integer in [0, 2**20]"],
                          per_path=20, budget=60, require=("encoded", "refused"), group="encoding kernels", functions=fns))
    for op in TWO_BYTE:
        hs.append(Harness(id="C14.emit." + op, fn=make_emit(op, True), bounds=["jump target: any integer in [0, 2**20]"],
                          per_path=20, budget=60, require=("encoded", "refused"), group="encoding kernels", functions=fns))
        hs.append(Harness(id="C14.patch-here." + op, fn=make_patch(op, False),
                          bounds=["code size at patch time: any integer in [3, 2**20]"],
                          per_path=20, budget=60, require=("encoded", "refused"), group="encoding kernels", functions=fns))
        hs.append(Harness(id="C14.patch-to." + op, fn=make_patch(op, True),
                          bounds=["explicit jump target: any integer in [3, 2**20]"],
                          per_path=20, budget=60, require=("encoded", "refused"), group="encoding kernels", functions=fns))
    for name in TEMPLATES:
        hs.append(Harness(id="C14.program." + name, fn=make_program(name, False),
                          bounds=["scale n: solver-chosen index into the boundary set of template " + name],
                          per_path=120, budget=600, group="program templates",
                          tier="quick",
                          functions=("microjs.context.Context.eval",)))
        if name in SIZE_TEMPLATES:
            hs.append(Harness(id="C14.program-big." + name, fn=make_program(name, True),
                              bounds=["scale n up to 4x the jump-target boundary of template " + name],
                              per_path=300, budget=1500, group="program templates", tier="thorough",
                              functions=("microjs.context.Context.eval",)))
    return hs
