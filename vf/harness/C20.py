"""C20 - regex state (lastIndex) and the regex-driven String methods (DESIGN 4, C20)."""
from ..harness_api import Harness
from ..compat import pre, cover, known, NoTracing
from ..refsem import regex_ref as RR
from ..refsem.num import UNDEF, NULL
from ..skel import regexgen as G
from .. import domains as D

ASSUMPTIONS = [
    "the only state of the protocol is the lastIndex property: one step (exec / test) from an ARBITRARY lastIndex value "
    "covers histories of any length (the induction over the history is an argument, not machine-checked); histories of "
    "length 3 are explored as a composition check",
    "patterns: a pinned set including empty-matching ones; subjects: strings over {a,b,c} up to the length bound "
    "(solver-chosen indices); lastIndex values, limits and templates: solver-chosen indices into pinned grids",
    "the reference is RegExpBuiltinExec / @@match / @@replace / @@split / @@search / GetSubstitution transcribed in "
    "vf/refsem/regex_ref.py (calibrated against node on 13800 cases; node is not part of the check)",
]
FNS = ("microjs.values.JSRegExp.exec", "microjs.values.JSRegExp.test", "microjs.regex.regex.RegExp.exec",
       "microjs.regex.regex.RegExp.test", "microjs.vm.VM._make_string_method (match, replace, replaceAll, split, search)",
       "microjs.vm.VM._set_property / _get_property (lastIndex)")

A, B = G.A, G.B
PATTERNS = {
    "a": A, "a-star": G.q(A, 0), "empty": G.seq(), "start": ("assert", "start"), "boundary": ("assert", "b"),
    "ab-group": G.seq(G.grp(A), G.q(G.grp(B), 2)), "alt": G.grp(G.alt(A, B)), "ab-plus": G.grp(G.q(G.CAB, 1)),
    "look": G.seq(A, G.look(True, True, B)), "end": ("assert", "end"),
}
FLAGSETS = ["", "g", "y", "gy", "gi", "gm"]
NAN, INF = float("nan"), float("inf")
LASTS = [0, 1, 2, 3, 4, 5, 8, -1, -3, 0.5, 1.5, -0.5, NAN, INF, -INF, "1", "2", "", "x", UNDEF, NULL, True, 2 ** 53, 2 ** 32 + 1, 1e21]
ABC = ["a", "b", "c"]


def pick(i, grid):
    pre(0 <= i < len(grid))
    for k in range(len(grid)):
        if i == k:
            return grid[k]
    raise AssertionError


def subject(n, idx, maxlen):
    pre(0 <= n <= maxlen)
    chars = []
    for j in range(len(idx)):
        if j < n:
            chars.append(pick(idx[j], ABC))
        else:
            pre(idx[j] == 0)
    return "".join(chars)


def js_result(v):
    """engine value -> comparable python (None for null, 'undef' for undefined)."""
    import microjs.values as V
    if v is V.NULL:
        return None
    if v is V.UNDEFINED:
        return "undef"
    if isinstance(v, V.JSArray):
        out = [js_result(e) for e in v._elements]
        return out
    return v


def ref_groups(groups):
    return ["undef" if g is None else g for g in groups]


def same_last(got, want):
    """lastIndex afterwards: value and type (a number when the engine wrote it; untouched otherwise)."""
    return D.same(got, D.to_ref(want) if not isinstance(want, (int, float, str, bool)) or isinstance(want, bool) else want) \
        if False else _same_value(got, want)


def _same_value(got, want):
    import microjs.values as V
    if want is UNDEF:
        return got is V.UNDEFINED
    if want is NULL:
        return got is V.NULL
    return D.same(got, want)


def make_step(pname, flags, maxlen):
    ast = PATTERNS[pname]
    src = RR.render(ast)

    def h(op, li, n, i0, i1, i2, i3):
        s = subject(n, [i0, i1, i2, i3], maxlen)
        last = pick(li, LASTS)
        op = pick(op, [0, 1])
        with NoTracing():
            from ..jsrun import eval_concrete
            rx = RR.RRegExp(ast, flags, last)
            want = RR.builtin_exec(rx, s)
            script = ("var R = new RegExp(P, F); R.lastIndex = V; var m = R.%s(S); "
                      "[m, m === null || m === true || m === false ? null : m.index, R.lastIndex]" % ("exec" if op == 0 else "test"))
            res = eval_concrete(script, {"P": src, "F": flags, "V": D.to_engine(last), "S": s})
            m, index, after = res._elements
            cover("judged")
            cover("matched", want is not None)
            what = "/%s/%s lastIndex=%r %s(%r)" % (src, flags, last, "exec" if op == 0 else "test", s)
            if op == 1:
                if m is not (want is not None):
                    return "%s: engine %r, ECMAScript %r" % (what, m, want is not None)
            else:
                if want is None:
                    if js_result(m) is not None:
                        return "%s: engine matched %r, ECMAScript null" % (what, js_result(m))
                else:
                    if js_result(m) is None:
                        return "%s: engine null, ECMAScript %r at %r" % (what, want[1], want[0])
                    if js_result(m) != ref_groups(want[1]) or index != want[0]:
                        return "%s: engine %r at %r, ECMAScript %r at %r" % (what, js_result(m), index, ref_groups(want[1]), want[0])
            if not _same_value(after, rx.last_index):
                return "%s: lastIndex afterwards engine %s, ECMAScript %s" % (what, D.show(after), D.show(rx.last_index))
        return True
    h.__annotations__ = {"op": int, "li": int, "n": int, "i0": int, "i1": int, "i2": int, "i3": int, "return": bool}
    return h


HIST_OPS = ["exec(S1)", "exec(S2)", "test(S1)", "test(S2)", "lastIndex = 0", "lastIndex = 1", "lastIndex = 5", "lastIndex = -1", "read"]
S1, S2 = "abab", "ba"


def make_history(pname, flags):
    ast = PATTERNS[pname]
    src = RR.render(ast)

    def h(o1, o2, o3):
        ops = [pick(o1, HIST_OPS), pick(o2, HIST_OPS), pick(o3, HIST_OPS)]
        with NoTracing():
            from ..jsrun import eval_concrete
            rx = RR.RRegExp(ast, flags, 0)
            want = []
            lines = []
            for op in ops:
                if op.startswith("exec") or op.startswith("test"):
                    s = S1 if "S1" in op else S2
                    r = RR.builtin_exec(rx, s)
                    if op.startswith("test"):
                        want.append(r is not None)
                    else:
                        want.append(None if r is None else [r[0]] + ref_groups(r[1]))
                    if op.startswith("test"):
                        lines.append("O.push(R.test(%s));" % ("S1" if "S1" in op else "S2"))
                    else:
                        lines.append("m = R.exec(%s); O.push(m === null ? null : [m.index].concat(m));" % ("S1" if "S1" in op else "S2"))
                elif op == "read":
                    want.append(rx.last_index)
                    lines.append("O.push(R.lastIndex);")
                else:
                    v = int(op.split("=")[1])
                    rx.last_index = v
                    lines.append("R.%s;" % op)
                want.append(rx.last_index)
                lines.append("O.push(R.lastIndex);")
            script = "var R = new RegExp(P, F); var O = []; var m; " + " ".join(lines) + " O"
            res = js_result(eval_concrete(script, {"P": src, "F": flags, "S1": S1, "S2": S2}))
            cover("judged")
            if res != want:
                return "/%s/%s history %r: engine %r, ECMAScript %r" % (src, flags, ops, res, want)
        return True
    h.__annotations__ = {"o1": int, "o2": int, "o3": int, "return": bool}
    return h


# ---- string methods -------------------------------------------------------------------------------
PRESET = [0, 1, 2, 5, "x"]
REPLACERS = {
    "plain": "return '<' + calls.length + '>';",
    "reads": "seen.push(R.lastIndex); return '<' + calls.length + '>';",
    "execs": "seen.push(R.test('ba')); return '<' + calls.length + '>';",
    "sets": "R.lastIndex = 1; return '<' + calls.length + '>';",
    "throws": "if (calls.length === 2) { throw 'boom'; } return '<' + calls.length + '>';",
}
TEMPLATES = ["x", "", "$$", "$&", "[$`]", "[$']", "$1", "$2", "$01", "$10", "$0", "$", "a$", "$$1", "<$&$1>", "$&$&", "$3", "$$$&", "$'$`"]
LIMITS = [UNDEF, 0, 1, 2, 3, 10, -1, 2 ** 32, 2 ** 32 + 1, 1.9, NAN, "2", NULL]


def to_uint32_limit(v):
    from ..refsem import ops as R
    if v is UNDEF:
        return None
    return R.to_uint32(R.to_number(v))


def make_method(method, pname, flags, maxlen):
    ast = PATTERNS[pname]
    src = RR.render(ast)

    def h(t, v, n, i0, i1, i2, i3):
        s = subject(n, [i0, i1, i2, i3], maxlen)
        grid = TEMPLATES if method in ("replace", "replaceAll") else LIMITS if method == "split" else \
            sorted(REPLACERS) if method == "replace-fn" else [None]
        param = pick(t, grid)
        preset = pick(v, PRESET)
        with NoTracing():
            from ..jsrun import eval_concrete
            from microjs.errors import JSError
            rx = RR.RRegExp(ast, flags, preset)
            g = {"P": src, "F": flags, "S": s, "V": preset}
            if method == "match":
                r = RR.str_match(s, rx)
                if r is None:
                    want = None
                elif rx.global_:
                    want = list(r)
                else:
                    want = [r[0], s] + ref_groups(r[1])
                script = ("var R = new RegExp(P, F); R.lastIndex = V; var m = S.match(R); "
                          "[m === null ? null : (R.global ? m : [m.index, m.input].concat(m)), R.lastIndex]")
            elif method == "search":
                want = RR.str_search(s, rx)
                script = "var R = new RegExp(P, F); R.lastIndex = V; [S.search(R), R.lastIndex]"
            elif method in ("replace", "replaceAll"):
                tmpl = param
                g["T"] = tmpl
                if method == "replaceAll" and not rx.global_:
                    want = "TypeError"
                else:
                    want = RR.str_replace(s, rx, tmpl)
                script = ("var R = new RegExp(P, F); R.lastIndex = V; var o; try { o = S.%s(R, T); } catch (e) { o = e.name; } [o, R.lastIndex]" % method)
            elif method == "replace-fn":
                calls = []
                seen = []
                kind = param

                class Boom(Exception):
                    pass

                def call(fn, args):
                    calls.append(ref_groups(args[:-2]) + list(args[-2:]))
                    if kind == "reads":
                        seen.append(rx.last_index)
                    elif kind == "execs":
                        seen.append(RR.builtin_exec(rx, "ba") is not None)
                    elif kind == "sets":
                        rx.last_index = 1
                    elif kind == "throws" and len(calls) == 2:
                        raise Boom()
                    return "<%d>" % len(calls)
                try:
                    out = RR.str_replace(s, rx, None, call)
                except Boom:
                    out = "threw"
                want = [out, calls, seen]
                script = ("var R = new RegExp(P, F); R.lastIndex = V; var calls = []; var seen = []; var o; try { o = S.replace(R, function() { "
                          "var a = []; for (var i = 0; i < arguments.length; i++) { a.push(arguments[i]); } calls.push(a); "
                          + REPLACERS[kind] + " }); } catch (e) { o = 'threw'; } [[o, calls, seen], R.lastIndex]")
            else:
                lim = param
                g["L"] = D.to_engine(lim)
                want = ref_groups(RR.str_split(s, rx, to_uint32_limit(lim)))
                script = "var R = new RegExp(P, F); R.lastIndex = V; [S.split(R, L), R.lastIndex]"
            try:
                res = js_result(eval_concrete(script, g))
            except JSError as e:
                return "/%s/%s %s on %r: %s" % (src, flags, method, s, e)
            cover("judged")
            what = "%r.%s(/%s/%s%s)" % (s, method, src, flags, ", " + repr(g.get("T", g.get("L"))) if ("T" in g or "L" in g) else "")
            if res[0] != want:
                return "%s: engine %r, ECMAScript %r" % (what, res[0], want)
            if not _same_value(D.to_engine(res[1]) if False else res[1], rx.last_index):
                return "%s: lastIndex afterwards engine %r, ECMAScript %r" % (what, res[1], rx.last_index)
        return True
    h.__annotations__ = {"t": int, "v": int, "n": int, "i0": int, "i1": int, "i2": int, "i3": int, "return": bool}
    return h


def harnesses():
    hs = []
    for pname in PATTERNS:
        for flags in FLAGSETS:
            fl = flags or "-"
            hs.append(Harness(id="C20.step.%s.%s" % (pname, fl), fn=make_step(pname, flags, 2),
                              bounds=["pattern /%s/%s" % (RR.render(PATTERNS[pname]), flags), "lastIndex: index into %d values (ints, "
                                      "fractions, NaN, infinities, strings, undefined, null, huge)" % len(LASTS),
                                      "operation exec / test; subject length <= 2 over {a,b,c}"],
                              per_path=60, budget=300, require=("judged",), group="lastIndex one step", functions=FNS))
            hs.append(Harness(id="C20.step4.%s.%s" % (pname, fl), fn=make_step(pname, flags, 4),
                              bounds=["as C20.step with subject length <= 4"], per_path=60, budget=900, tier="thorough",
                              require=("judged",), group="lastIndex one step", functions=FNS))
            hs.append(Harness(id="C20.history.%s.%s" % (pname, fl), fn=make_history(pname, flags),
                              bounds=["3 operations, each an index into %r" % (HIST_OPS,)], per_path=60, budget=300,
                              require=("judged",), group="histories", functions=FNS,
                              tier="quick" if pname in ("a", "a-star", "empty", "ab-group") else "thorough"))
            for method in ("match", "search", "replace", "replaceAll", "replace-fn", "split"):
                quick = pname in ("a", "a-star", "ab-group", "boundary") and flags in ("", "g", "y", "gi")
                hs.append(Harness(id="C20.%s2.%s.%s" % (method, pname, fl), fn=make_method(method, pname, flags, 2),
                                  bounds=["pattern /%s/%s" % (RR.render(PATTERNS[pname]), flags), "subject length <= 2 over {a,b,c}; "
                                          "lastIndex preset, template / limit / replacer kind: solver-chosen indices"],
                                  per_path=60, budget=300, require=("judged",), group="string methods", functions=FNS,
                                  tier="quick" if quick else "thorough"))
                quick = False
                hs.append(Harness(id="C20.%s.%s.%s" % (method, pname, fl), fn=make_method(method, pname, flags, 3),
                                  bounds=["pattern /%s/%s" % (RR.render(PATTERNS[pname]), flags), "subject length <= 3 over {a,b,c}",
                                          "replacement template: index into %r" % (TEMPLATES,) if method.startswith("replace") and method != "replace-fn"
                                          else "limit: index into the limit grid" if method == "split" else "no further parameter"],
                                  per_path=60, budget=300, require=("judged",), group="string methods", functions=FNS,
                                  tier="quick" if quick else "thorough"))
    return hs
