"""C09 - regular expressions match exactly as ECMAScript backtracking specifies (DESIGN 4, C09)."""
import os

from ..harness_api import Harness
from ..compat import pre, cover, known, NoTracing
from ..refsem import regex_ref as RR
from ..skel import regexgen as G

ASSUMPTIONS = [
    "patterns: the enumerated core family of vf/skel/regexgen.py plus a seeded depth-3 generator (thorough tier); "
    "patterns outside them are outside the claim",
    "subjects: every string up to the length bound over all code points (solver variable); under /i the subject is "
    "built from a pinned alphabet (ASCII letters/digits plus special-casing characters) by solver-chosen indices",
    "the reference is the ECMA-262 22.2.2 matcher transcribed in vf/refsem/regex_ref.py (calibrated against node on "
    "1.3 million pattern/subject pairs; node is not part of the check)",
    "non-unicode mode; flags g/y/u and lastIndex are C20's subject; step-budget exhaustion is C10's",
]
FNS = ("microjs.regex.parser.RegexParser.parse (concrete pattern, untraced)", "microjs.regex.compiler.RegexCompiler.compile (untraced)",
       "microjs.regex.regex.RegExp.exec", "microjs.regex.vm.RegexVM.search", "microjs.regex.vm.RegexVM._execute",
       "microjs.regex.vm.RegexVM._execute_lookahead", "microjs.regex.vm.RegexVM._execute_lookbehind")

I_ALPHABET = ["a", "b", "A", "B", "c", "k", "K", "1", "_", " ", "\n", "K", "ſ", "ß", "é", "É", "s", "S"]
_RX = {}


def engine_regexp(pattern, flags):
    with NoTracing():
        key = (pattern, flags)
        r = _RX.get(key)
        if r is None:
            from microjs.regex import RegExp
            r = RegExp(pattern, flags)
            if len(_RX) < 4000:
                _RX[key] = r
        return r


def compare(ast, pattern, flags, s):
    want = RR.exec_ref(ast, flags, s)
    rx = engine_regexp(pattern, flags)
    rx.lastIndex = 0
    got = rx.exec(s)
    cover("judged")
    if want is None:
        if got is None:
            return True
        return "/%s/%s on %r: engine matches %r at %r, ECMAScript: no match" % (pattern, flags, s, list(got._groups), got.index)
    cover("matched")
    if got is None:
        return "/%s/%s on %r: engine finds no match, ECMAScript matches %r at %r" % (pattern, flags, s, want[2], want[0])
    if got.index != want[0]:
        return "/%s/%s on %r: index engine %r, ECMAScript %r" % (pattern, flags, s, got.index, want[0])
    g = list(got._groups)
    w = want[2]
    if len(g) != len(w):
        return "/%s/%s: %d groups reported, %d expected" % (pattern, flags, len(g), len(w))
    for i in range(len(w)):
        if (g[i] is None) != (w[i] is None) or (w[i] is not None and g[i] != w[i]):
            return "/%s/%s on %r: group %d engine %r, ECMAScript %r (all: %r vs %r)" % (pattern, flags, s, i, g[i], w[i], g, w)
    return True


def make_sym(ast, flags, maxlen):
    pattern = RR.render(ast)

    def h(s):
        pre(len(s) <= maxlen)
        return compare(ast, pattern, flags, s)
    h.__annotations__ = {"s": str, "return": bool}
    return h


def make_abc(ast, maxlen):
    pattern = RR.render(ast)
    abc = ["a", "b", "c"]

    def h(n_, i0, i1, i2, i3, i4):
        pre(0 <= n_ <= maxlen)
        idx = [i0, i1, i2, i3, i4]
        chars = []
        for j in range(5):
            if j < n_:
                pre(0 <= idx[j] < 3)
                ch = None
                for k in range(3):
                    if idx[j] == k:
                        ch = abc[k]
                chars.append(ch)
            else:
                pre(idx[j] == 0)
        with NoTracing():
            return compare(ast, pattern, "", "".join(chars))
    h.__annotations__ = {"n_": int, "i0": int, "i1": int, "i2": int, "i3": int, "i4": int, "return": bool}
    return h


def make_icase(ast, maxlen):
    pattern = RR.render(ast)
    n = len(I_ALPHABET)

    def h(n_, i0, i1, i2):
        pre(0 <= n_ <= maxlen and 0 <= i0 < n and 0 <= i1 < n and 0 <= i2 < n)
        idx = [i0, i1, i2][:3]
        chars = []
        for j in range(3):
            if j < n_:
                ch = None
                for k in range(n):
                    if idx[j] == k:
                        ch = I_ALPHABET[k]
                chars.append(ch)
            else:
                pre(idx[j] == 0)
        with NoTracing():
            s = "".join(chars)
            return compare(ast, pattern, "i", s)
    h.__annotations__ = {"n_": int, "i0": int, "i1": int, "i2": int, "return": bool}
    return h


WIDE = ("\\W", "\\S", "\\D", "\\B", "\\b", "\\s", "\\w", "[^")


def quick_len(pat):
    """Subject length bound of the quick tier: patterns with several wide (many-range) atoms fork most."""
    wide = sum(pat.count(w) for w in WIDE)
    return 2 if wide >= 1 else 3


def harnesses():
    hs = []
    seed = int(os.environ.get("VERIF_SEED", "0") or 0)
    core = G.core_patterns()
    for i, ast in enumerate(core):
        pat = RR.render(ast)
        ql = quick_len(pat)
        for flags in ("", "m", "s"):
            if flags == "m" and "^" not in pat and "$" not in pat:
                continue
            if flags == "s" and "." not in pat:
                continue
            hs.append(Harness(id="C09.core.%03d.%s" % (i, flags or "-"), fn=make_sym(ast, flags, ql),
                              bounds=["pattern /%s/%s" % (pat, flags), "subject: every string of length <= %d over all code points" % ql],
                              per_path=30, budget=150, require=("judged",), group="core patterns",
                              functions=FNS))
            if ql < 3:
                hs.append(Harness(id="C09.core3.%03d.%s" % (i, flags or "-"), fn=make_sym(ast, flags, 3),
                                  bounds=["pattern /%s/%s" % (pat, flags), "subject: every string of length <= 3 over all code points"],
                                  per_path=60, budget=900, require=("judged",), group="core patterns len 3",
                                  functions=FNS, tier="thorough"))
        hs.append(Harness(id="C09.core.%03d.i" % i, fn=make_icase(ast, 2),
                          bounds=["pattern /%s/i" % pat, "subject: length <= 2 over the pinned %d-character alphabet" % len(I_ALPHABET)],
                          per_path=30, budget=200, require=("judged",), group="core patterns /i",
                          functions=FNS, tier="quick" if i % 3 == seed % 3 else "thorough"))
        hs.append(Harness(id="C09.core.%03d.i3" % i, fn=make_icase(ast, 3),
                          bounds=["pattern /%s/i" % pat, "subject: length <= 3 over the pinned %d-character alphabet" % len(I_ALPHABET)],
                          per_path=30, budget=900, require=("judged",), group="core patterns /i len 3",
                          functions=FNS, tier="thorough"))
        if ql == 3:
            hs.append(Harness(id="C09.core4.%03d" % i, fn=make_sym(ast, "", 4),
                              bounds=["pattern /%s/" % pat, "subject: every string of length <= 4 over all code points"],
                              per_path=60, budget=900, tier="thorough", require=("judged",), group="core patterns len 4",
                              functions=FNS))
    for i, ast in enumerate(G.deep_patterns()):
        pat = RR.render(ast)
        hs.append(Harness(id="C09.deep.%03d" % i, fn=make_abc(ast, 5),
                          bounds=["pattern /%s/" % pat, "subject: every string of length <= 5 over {a, b, c} (solver-chosen indices)"],
                          per_path=30, budget=300, require=("judged",), group="deep patterns", functions=FNS))
        hs.append(Harness(id="C09.deep-sym.%03d" % i, fn=make_sym(ast, "", 4),
                          bounds=["pattern /%s/" % pat, "subject: every string of length <= 4 over all code points"],
                          per_path=60, budget=900, require=("judged",), group="deep patterns", functions=FNS, tier="thorough"))
    rnd = G.random_patterns(1000 + seed, 120)
    for i, ast in enumerate(rnd):
        pat = RR.render(ast)
        ql = quick_len(pat)
        hs.append(Harness(id="C09.rand.%03d" % i, fn=make_sym(ast, "m" if i % 3 == 0 else "", ql),
                          bounds=["seeded random pattern /%s/ (VERIF_SEED=%d)" % (pat, seed),
                                  "subject: every string of length <= %d over all code points" % ql],
                          per_path=30, budget=150, tier="quick" if i < 24 else "thorough", require=("judged",),
                          group="random patterns", functions=FNS))
        hs.append(Harness(id="C09.rand3.%03d" % i, fn=make_sym(ast, "m" if i % 3 == 0 else "", 3),
                          bounds=["seeded random pattern /%s/ (VERIF_SEED=%d)" % (pat, seed),
                                  "subject: every string of length <= 3 over all code points"],
                          per_path=60, budget=900, tier="thorough", require=("judged",),
                          group="random patterns len 3", functions=FNS))
    return hs
