"""C13 - parsing respects the grammar: precedence, layout, literals, print/parse round trip, rejection (DESIGN 4, C13)."""
from fractions import Fraction

from ..harness_api import Harness
from ..compat import pre, cover, NoTracing
from ..refsem import syntax as S
from ..skel import exprgen as G
from ..skel import corpus as CORPUS

ASSUMPTIONS = [
    "the oracle for precedence/associativity is vf/refsem/syntax.py, a transcription of the ECMAScript expression grammar "
    "as a printer: a tree printed by it denotes that tree in a conforming implementation (calibrated once against node on "
    "all operator pairs and the representative triples by tools/calibrate_syntax.py; node is not part of any check)",
    "operator kinds, attachment slots, gap indices, trivia kinds and deleted-terminator indices are solver-chosen indices into "
    "finite tables regenerated from the engine's own operator list and from the corpus at run time; the text of comments, "
    "white space, string literals and identifiers is symbolic (all Unicode code points) and goes through the real lexer",
    "symbolic trivia is judged in every token-class context (tiny programs); pinned trivia spellings are judged at every gap "
    "of every corpus program; trivia at more than two gaps at once is outside the claim",
    "Property.shorthand (a spelling note the parser sets inconsistently and the compiler never reads) is not part of the tree",
]
FNS = ("microjs.parser.Parser.parse", "microjs.lexer.Lexer.next_token", "microjs.lexer.Lexer._skip_whitespace",
       "microjs.lexer.Lexer._read_string", "microjs.lexer.Lexer._read_number", "microjs.lexer.Lexer.read_regex_literal",
       "microjs.parser.Parser._parse_binary_expression", "microjs.parser.Parser._continue_parsing_expression",
       "microjs.parser.Parser._parse_primary_expression", "microjs.parser.Parser._parse_nested_arrays")

WS_CODES = (9, 10, 11, 12, 13, 32, 0xA0, 0x1680, 0x2000, 0x2001, 0x2002, 0x2003, 0x2004, 0x2005, 0x2006, 0x2007, 0x2008, 0x2009,
            0x200A, 0x2028, 0x2029, 0x202F, 0x205F, 0x3000, 0xFEFF)
LT_CODES = (10, 13, 0x2028, 0x2029)


def pick(i, grid):
    pre(0 <= i < len(grid))
    for k in range(len(grid)):
        if i == k:
            return grid[k]
    raise AssertionError


def parse(src):
    from microjs.parser import Parser
    return Parser(src).parse()


def parse_outcome(src):
    """('tree', dict) | ('syntax', message) | ('host', repr)"""
    from microjs.errors import JSSyntaxError
    try:
        return ("tree", S.strip(parse(src)))
    except JSSyntaxError as e:
        return ("syntax", str(e))
    except Exception as e:  # noqa: BLE001
        return ("host", "%s: %s" % (type(e).__name__, e))


def compile_outcome(src):
    """Parse and compile (target checks may sit in either): ('ok',) | ('syntax', message) | ('host', repr)"""
    from microjs.errors import JSSyntaxError
    from microjs.compiler import Compiler
    try:
        Compiler().compile(parse(src))
        return ("ok",)
    except JSSyntaxError as e:
        return ("syntax", str(e))
    except Exception as e:  # noqa: BLE001
        return ("host", "%s: %s" % (type(e).__name__, e))


def as_program(tree):
    from microjs import ast_nodes as A
    return A.Program([A.ExpressionStatement(tree)])


# ------------------------------------------------------------------------------------------- precedence / parentheses
WRAP_PAIRS = [(a, b) for a in range(7) for b in range(a + 1, 7)]


def make_prec(k0, pool1, pool2, wrap):
    """Trees of 2 (pool2 None) or 3 operators rooted at kind k0; printed minimally (+ one redundant pair when wrap)."""
    n1 = G.n_leaves([k0])

    def prec_case(k1, s1, k2, s2, w):
        a1 = pick(k1, pool1)
        b1 = pick(s1, list(range(n1)))
        kinds, slots = [k0, a1], [b1]
        if pool2 is not None:
            a2 = pick(k2, pool2)
            b2 = pick(s2, list(range(5)))
            pre(b2 < G.n_leaves([k0, a1]))
            kinds.append(a2)
            slots.append(b2)
        else:
            pre(k2 == 0 and s2 == 0)
        if wrap == 2:
            wi = pick(w, WRAP_PAIRS)
        elif wrap:
            wi = pick(w, list(range(9)))
        else:
            wi = None
            pre(w == 0)
        with NoTracing():
            tree, valid = G.build(kinds, slots)
            prog = as_program(tree)
            toks, _noline, n_expr = S.tokens(prog, wrap_at=wi)
            if wrap and max(wi if wrap == 2 else (wi,)) >= n_expr:
                return True
            src = S.render(toks)
            out = parse_outcome(src)
            if not valid:
                cover("rejected")
                if out[0] != "syntax":
                    return "%r has an assignment/update target that is not a reference: engine %s, must be JSSyntaxError" % (src, out[0])
                return True
            cover("judged")
            if out[0] != "tree":
                return "%r is valid: engine raises %s" % (src, out[1])
            if out[1] != S.strip(prog):
                return "%r: the engine's tree is not the one the ECMAScript grammar gives (%s)" % (src, [G.NAMES[k] for k in kinds])
        return True
    prec_case.__annotations__ = {"k1": int, "s1": int, "k2": int, "s2": int, "w": int, "return": bool}
    return prec_case


def prec_replay(k0, pool1, pool2, wrap):
    def rp(k1, s1, k2, s2, w):
        kinds, slots = [k0, pool1[k1]], [s1]
        if pool2 is not None:
            kinds.append(pool2[k2])
            slots.append(s2)
        tree, valid = G.build(kinds, slots)
        return {"source": S.render(S.tokens(as_program(tree), wrap_at=(WRAP_PAIRS[w] if wrap == 2 else (w if wrap else None)))[0]),
                "operators": [G.NAMES[k] for k in kinds], "valid": valid}
    return rp


LEAF_TARGETS = ["1", "'s'", "this", "null", "true", "/r/", "[a]", "({})", "(function () {})", "(a, b)", "(a + b)", "(-a)", "(a++)", "f()",
                "(new F)", "new F()", "(a ? b : c)", "(a = b)", "(typeof a)", "(x => x)", "(a && b)", "(++a)", "1.5", "((2))", "(a.b, a.c)"]
TARGET_FORMS = ["%s = 1;", "%s += 1;", "%s >>>= 1;", "++%s;", "--%s;", "%s++;", "%s--;", "x = %s = 2;", "for (%s in o) {}", "for (%s of o) {}",
                "y = [%s = 1];", "f(%s -= 1);", "if (c) %s *= 2;", "(%s) = 1;", "((%s))++;", "x = ((%s) = 2);", "[(%s) = 1];", "y = [[0], (%s)++];",
                "f(((%s)) -= 1);", "((%s) = 1, 2);"]
REF_TARGETS = ["a", "a.b", "a[0]", "a.b.c", "a[b][c]", "f().x", "(a)", "(a.b)", "this.p", "a['k']"]


def target_case(fi: int, ti: int, good: bool) -> bool:
    """An assignment/update/for-in/of target that is (good) / is not (not good) a reference."""
    form = pick(fi, TARGET_FORMS)
    tgt = pick(ti, REF_TARGETS) if good else pick(ti, LEAF_TARGETS)
    with NoTracing():
        src = form % tgt
        out = compile_outcome(src)
        if good:
            cover("accepted")
            if out[0] != "ok":
                return "%r is valid: engine %s %s" % (src, out[0], out[1:])
        else:
            cover("rejected")
            if out[0] != "syntax":
                return "%r assigns to something that is not a variable or property: engine %s, must be JSSyntaxError" % (src, out)
    return True


# ------------------------------------------------------------------------------------------- layout
CONTEXTS = [
    # name, text before the gap, text after it, restricted (no line terminator allowed)
    ("ident-op", "a", "+ b;", False),
    ("op-ident", "a +", "b;", False),
    ("num-div", "8", "/ 2;", False),
    ("assign-regex", "x =", "/b/.source;", False),
    ("str-dot", "'s'", ".length;", False),
    ("call-open", "f(", "1);", False),
    ("kw-ident", "var", "v = 1;", False),
    ("start", "", "a;", False),
    ("end", "a;", "", False),
    ("else", "if (a) b; else", "c;", False),
    ("close-open", "if (a)", "{ b; }", False),
    ("num-num", "[1,", "2];", False),
    ("return", "function g() { return", "1; }", True),
    ("throw", "function g() { throw", "a; }", True),
    ("break-label", "L: for (;;) { break", "L; }", True),
    ("continue-label", "L: for (;;) { continue", "L; }", True),
    ("postfix", "a", "++;", True),
    ("arrow", "x = (y)", "=> y;", True),
]


QUICK_CONTEXTS = ("ident-op", "num-div", "assign-regex", "kw-ident", "start", "return", "postfix", "break-label")


def make_layout_sym(ctx, kind):
    name, before, after, restricted = ctx
    expected = {}

    def want():
        if "d" not in expected:
            expected["d"] = S.strip(parse(before + " " + after))
        return expected["d"]

    def layout_case(c0, c1, c2):
        for c in (c0, c1, c2):
            pre(0 <= c < 0x110000)
        if kind == "ws":
            pre(c0 in WS_CODES and c1 == 0 and c2 == 0)
            if restricted:
                pre(c0 not in LT_CODES)
            trivia = chr(c0)
        elif kind == "ws2":
            pre(c0 in WS_CODES and c1 in WS_CODES and c2 == 0)
            if restricted:
                pre(c0 not in LT_CODES and c1 not in LT_CODES)
            trivia = chr(c0) + chr(c1)
        elif kind == "block0":
            pre(c0 == 0 and c1 == 0 and c2 == 0)
            trivia = "/**/"
        elif kind == "block1":
            pre(c1 == 0 and c2 == 0)
            if restricted:
                pre(c0 not in LT_CODES)
            trivia = "/*" + chr(c0) + "*/"
        elif kind == "block2":
            pre(c2 == 0)
            pre(not (c0 == 42 and c1 == 47))
            if restricted:
                pre(c0 not in LT_CODES and c1 not in LT_CODES)
            trivia = "/*" + chr(c0) + chr(c1) + "*/"
        elif kind == "line":
            pre(not restricted)
            pre(c0 not in LT_CODES and c1 not in LT_CODES and c2 in LT_CODES)
            trivia = "//" + chr(c0) + chr(c1) + chr(c2)
        else:
            raise KeyError(kind)
        src = before + trivia + after
        from microjs.errors import JSSyntaxError
        try:
            t = parse(src)
        except JSSyntaxError as e:
            return "trivia between tokens makes the engine reject the program: " + str(e)
        with NoTracing():
            w = want()
        cover("judged")
        if S.strip(t) != w:
            return "trivia between tokens changes the tree"
        return True
    layout_case.__annotations__ = {"c0": int, "c1": int, "c2": int, "return": bool}
    return layout_case


def layout_sym_replay(ctx, kind):
    name, before, after, restricted = ctx

    def rp(c0, c1, c2):
        trivia = {"ws": chr(c0), "ws2": chr(c0) + chr(c1), "block0": "/**/", "block1": "/*" + chr(c0) + "*/",
                  "block2": "/*" + chr(c0) + chr(c1) + "*/", "line": "//" + chr(c0) + chr(c1) + chr(c2)}[kind]
        return {"source": before + trivia + after, "same_as": before + " " + after}
    return rp


TRIVIA = [" ", "\t", "\n", "\r", "\r\n", "\v", "\f", "\u00a0", "\ufeff", "\u2028", "  \n  ", "", "/**/", "/* c */", "/*\n*/", "/***/",
          "/*/*/", "// c\n", "//\n", "/* a */ /* b */", "// x\r\n", "/* // */", "// /* \n", "/* ' */", "// \" \n", "/* ` */ ", "\t/*\r*/\t"]
TRIVIA_QUICK = [1, 2, 4, 5, 11, 13, 14, 17, 22]
TRIVIA_BIG = [2, 11, 14, 17]


def has_lt(s):
    return any(ch in S.LINE_TERMINATORS for ch in s)


_PROG = {}


def prog_info(src):
    """tokens / restricted gaps / tree of one corpus program, computed once per process (untraced)."""
    if src not in _PROG:
        t = parse(src)
        toks, noline, n_expr = S.tokens(t)
        _PROG[src] = (t, toks, noline, n_expr, S.strip(t))
    return _PROG[src]


def make_layout_grid(src, trivia_idx, pairs):
    def layout_grid_case(g, t, t2):
        with NoTracing():
            tree, toks, noline, n_expr, want = prog_info(src)
            ngaps = len(toks) + 1
        gi = pick_range(g, ngaps)
        tv = pick(t, [TRIVIA[i] for i in trivia_idx])
        tv2 = pick(t2, [TRIVIA[i] for i in trivia_idx]) if pairs else None
        if not pairs:
            pre(t2 == 0)
        with NoTracing():
            gaps = {}
            for k, v in ((gi, tv), (gi + 1, tv2)):
                if v is None or k > len(toks):
                    continue
                if k in noline and has_lt(v):
                    return True
                if v == "" and 0 < k < len(toks) and not S.may_touch(toks[k - 1], toks[k]):
                    return True
                if v[:1] == "/" and k > 0 and toks[k - 1][-1] == "/":
                    return True         # "/" + "/*" would spell a different token ("//"), not trivia between the same tokens
                gaps[k] = v
            text = S.render(toks, gaps)
            out = parse_outcome(text)
            cover("judged")
            if out[0] != "tree":
                return "layout %r at token gap %d makes the engine raise %s" % (gaps, gi, out[1])
            if out[1] != want:
                return "layout %r at token gap %d changes the tree" % (gaps, gi)
        return True
    layout_grid_case.__annotations__ = {"g": int, "t": int, "t2": int, "return": bool}
    return layout_grid_case


def pick_range(i, n):
    """Concrete value of a solver-chosen index in range(n) (binary case split, n may be in the thousands)."""
    pre(0 <= i < n)
    lo, hi = 0, n
    while hi - lo > 1:
        mid = (lo + hi) // 2
        if i < mid:
            hi = mid
        else:
            lo = mid
    return lo


def layout_grid_replay(src, trivia_idx, pairs):
    def rp(g, t, t2):
        tree, toks, noline, n_expr, want = prog_info(src)
        gaps = {g: TRIVIA[trivia_idx[t]]}
        if pairs:
            gaps[g + 1] = TRIVIA[trivia_idx[t2]]
        return {"source": S.render(toks, gaps), "same_as": S.render(toks)}
    return rp


_BASE = {}


def public_eval(text):
    from microjs import Context
    try:
        return ("value", repr(Context().eval(text)))
    except Exception as e:  # noqa: BLE001
        return ("raise", type(e).__name__)


def make_layout_eval(src):
    """Whole-program result under one pinned trivia at every gap at once, and under redundant parentheses."""
    def layout_eval_case(t, w):
        tv = pick(t, [x for x in TRIVIA if x != ""])
        with NoTracing():
            tree, toks, noline, n_expr, want = prog_info(src)
        wi = pick_range(w, n_expr + 1)
        with NoTracing():
            if src not in _BASE:
                _BASE[src] = public_eval(src)
            base = _BASE[src]
            toks2, noline2, _n = S.tokens(tree, wrap_at=(wi if wi < n_expr else None))
            gaps = {k: (tv if not (k in noline2 and has_lt(tv)) and not (tv[:1] == "/" and k > 0 and toks2[k - 1][-1] == "/") else " ")
                    for k in range(len(toks2) + 1)}
            got = public_eval(S.render(toks2, gaps))
            cover("judged")
            if got != base:
                return "re-rendered program gives %r, the original %r" % (got, base)
        return True
    layout_eval_case.__annotations__ = {"t": int, "w": int, "return": bool}
    return layout_eval_case


# ------------------------------------------------------------------------------------------- parentheses on programs
def make_parens_prog(src):
    def parens_case(w):
        with NoTracing():
            tree, toks, noline, n_expr, want = prog_info(src)
        wi = pick_range(w, n_expr)
        with NoTracing():
            text = S.render(S.tokens(tree, wrap_at=wi)[0])
            out = parse_outcome(text)
            cover("judged")
            if out[0] != "tree":
                return "redundant parentheses at expression %d: engine raises %s for %r" % (wi, out[1], text[:300])
            if out[1] != want:
                return "redundant parentheses at expression %d change the tree: %r" % (wi, text[:300])
        return True
    parens_case.__annotations__ = {"w": int, "return": bool}
    return parens_case


def make_parens_prog2(src):
    """Two redundant pairs of parentheses at two expression positions (nested or side by side)."""
    def parens2_case(w1, w2):
        with NoTracing():
            tree, toks, noline, n_expr, want = prog_info(src)
        a = pick_range(w1, n_expr)
        b = pick_range(w2, n_expr)
        pre(a < b)
        with NoTracing():
            text = S.render(S.tokens(tree, wrap_at=(a, b))[0])
            out = parse_outcome(text)
            cover("judged")
            if out[0] != "tree":
                return "redundant parentheses at expressions %d and %d: engine raises %s for %r" % (a, b, out[1], text[:300])
            if out[1] != want:
                return "redundant parentheses at expressions %d and %d change the tree: %r" % (a, b, text[:300])
        return True
    parens2_case.__annotations__ = {"w1": int, "w2": int, "return": bool}
    return parens2_case


def parens_replay(src):
    def rp(w):
        tree, toks, noline, n_expr, want = prog_info(src)
        return {"source": S.render(S.tokens(tree, wrap_at=w)[0]), "same_as": S.render(toks)}
    return rp


# ------------------------------------------------------------------------------------------- round trip
def make_roundtrip(src):
    def roundtrip_case(i):
        with NoTracing():
            tree = prog_info(src)[0]
            n = len(tree.body)
        k = pick_range(i, n)
        with NoTracing():
            st = tree.body[k]
            text = S.source(st)
            out = parse_outcome(text)
            cover("judged")
            from microjs import ast_nodes as A
            want = S.strip(A.Program([st]))
            if out[0] != "tree":
                return "statement %d printed as %r: engine raises %s" % (k, text[:300], out[1])
            if out[1] != want:
                return "statement %d printed as %r parses to a different tree" % (k, text[:300])
        return True
    roundtrip_case.__annotations__ = {"i": int, "return": bool}
    return roundtrip_case


NAME_TEMPLATES = [
    ("var-use", "var %s = 1; %s + 2;"),
    ("function", "function %s(%s) { return %s; }"),
    ("member", "o.%s = %s;"),
    ("label", "%s: for (;;) { break %s; }"),
    ("object-key", "x = {%s: 1, get %s() { return 2; }};"),
    ("arrow", "f = %s => %s * 2;"),
    ("catch", "try { t(); } catch (%s) { %s; }"),
]


def make_names(tmpl, nchars):
    def names_case(c0, c1):
        pre(0 <= c0 < 0x110000 and 0 <= c1 < 0x110000)
        n = chr(c0)
        pre(n.isalpha() or c0 == 36 or c0 == 95)
        if nchars == 2:
            n1 = chr(c1)
            pre(n1.isalnum() or c1 == 36 or c1 == 95)
            n = n + n1
        else:
            pre(c1 == 0)
        pre(n not in ("in", "of", "do", "if"))
        src = tmpl.replace("%s", n)
        from microjs.errors import JSSyntaxError
        try:
            t = parse(src)
        except JSSyntaxError as e:
            return "identifier made of letters is rejected: " + str(e)
        with NoTracing():
            want = S.strip(parse(tmpl.replace("%s", "QQ")))
        cover("judged")

        def subst(d):
            if isinstance(d, dict):
                return {k: subst(v) for k, v in d.items()}
            if isinstance(d, list):
                return [subst(v) for v in d]
            if isinstance(d, str) and d == "QQ":
                return n
            return d
        if S.strip(t) != subst(want):
            return "identifier is not read back as written"
        return True
    names_case.__annotations__ = {"c0": int, "c1": int, "return": bool}
    return names_case


# ------------------------------------------------------------------------------------------- literals
HEX = "0123456789abcdef"


def radix_case(base_i: int, d0: int, d1: int, d2: int, d3: int, n: int, upper: bool) -> bool:
    """Every spelling of one non-negative integer: decimal, 0x, 0o, 0b, fraction and exponent forms."""
    base, prefix = pick(base_i, [(16, "0x"), (8, "0o"), (2, "0b"), (16, "0X"), (8, "0O"), (2, "0B")])
    nd = pick(n, [1, 2, 3, 4])
    grid = list(range(16)) if nd <= 2 else [0, 1, 7, 9, 10, 15]
    ds = []
    for d in (d0, d1, d2, d3)[:nd]:
        v = pick(d, grid)
        pre(v < base)
        ds.append(v)
    for d in (d0, d1, d2, d3)[nd:]:
        pre(d == 0)
    pre(upper == (prefix[1] != prefix[1].lower()))
    with NoTracing():
        value = 0
        for d in ds:
            value = value * base + d
        digits = "".join(HEX[d] for d in ds)
        if upper:
            digits = digits.upper()
        from ..jsrun import eval_concrete
        spellings = [prefix + digits, str(value), "%d." % value, "%d.0" % value, "%de0" % value, "%d.0e+0" % value, "%d0e-1" % value,
                     "0.%de%d" % (value, len(str(value))) if value and str(value)[-1] != "0" else str(value), "%dE0" % value]
        if value == 0:
            spellings.remove("00e-1")
        got = [eval_concrete(s, {}) for s in spellings]
        cover("judged")
        for s, g in zip(spellings, got):
            if isinstance(g, bool) or not isinstance(g, (int, float)) or g != value:
                return "literal %s denotes %r, not %d" % (s, g, value)
    return True


MANTISSAS = ["1", "5", "12", "25", "123", "999", "1005", "4503599627370497", "9007199254740993", "17976931348623157", "4940656458412465",
             "22250738585072014", "1", "100", "1230"]


EXPONENTS = [-330, -325, -324, -323, -308, -307, -22, -7, -6, -1, 0, 1, 5, 15, 16, 20, 21, 22, 23, 292, 307, 308, 309, 310]


def decimal_case(mi: int, p: int, e: int, cap: bool, plus: bool, quick: bool = True) -> bool:
    """Decimal literal = digits with a point at position p and exponent e, in every equivalent spelling."""
    m = pick(mi, MANTISSAS)
    if quick:
        pi = pick(p, sorted(x for x in {0, 1, 2, len(m) - 1, len(m)} if 0 <= x <= len(m)))
        pre(not (cap and plus))
    else:
        pre(0 <= p <= len(m))
        pi = pick(p, list(range(18)))
    ei = pick(e, EXPONENTS) if quick else pick(e + 330, list(range(-330, 311)))
    with NoTracing():
        exact = Fraction(int(m)) * Fraction(10) ** (ei - (len(m) - pi))
        try:
            want = float(exact)
        except OverflowError:
            want = float("inf")
        ip, fp = m[:pi], m[pi:]
        E = "E" if cap else "e"
        sign = "+" if (plus and ei >= 0) else ""
        forms = []
        if ip and fp:
            forms.append("%s.%s%s%s%d" % (ip, fp, E, sign, ei))
        if ip and not fp:
            forms.append("%s%s%s%d" % (ip, E, sign, ei))
            forms.append("%s.%s%s%d" % (ip, E, sign, ei))
        if not ip:
            forms.append(".%s%s%s%d" % (fp, E, sign, ei))
            forms.append("0.%s%s%s%d" % (fp, E, sign, ei))
        if ei == 0:
            if ip and fp:
                forms.append("%s.%s" % (ip, fp))
            elif not ip:
                forms.append(".%s" % fp)
        forms.append("%s%s%d" % (m, E, ei - len(fp)))
        forms = [f for f in forms if not (len(f) > 1 and f[0] == "0" and f[1] in "0123456789")]
        from ..jsrun import eval_concrete
        cover("judged")
        for f in forms:
            g = eval_concrete(f, {})
            if isinstance(g, bool) or not isinstance(g, (int, float)) or float(g) != want:
                return "literal %s denotes %r, ECMAScript %r" % (f, g, want)
    return True


SINGLE_ESCAPES = {110: "\n", 116: "\t", 114: "\r", 98: "\b", 102: "\f", 118: "\v", 48: "\0", 39: "'", 34: '"', 92: "\\"}
NOT_IDENTITY = set(SINGLE_ESCAPES) | {120, 117, 10, 13, 0x2028, 0x2029} | set(range(49, 58))


def make_string_sym(quote, modes):
    """String literal with symbolic characters; per character a spelling mode: r raw, e single-character escape,
    i identity escape (backslash before a character with no special meaning), c line continuation."""
    q = ord(quote)

    def string_case(c0, c1, c2):
        cs = (c0, c1, c2)[:len(modes)]
        for c in (c0, c1, c2)[len(modes):]:
            pre(c == 0)
        text = quote
        value = ""
        for c, m in zip(cs, modes):
            pre(0 <= c < 0x110000)
            if m == "r":
                pre(c != q and c != 92 and c != 10 and c != 13)
                text = text + chr(c)
                value = value + chr(c)
            elif m == "e":
                pre(c in (110, 116, 114, 98, 102, 118, 48, 39, 34, 92))
                text = text + "\\" + chr(c)
                for k in (110, 116, 114, 98, 102, 118, 48, 39, 34, 92):
                    if c == k:
                        value = value + SINGLE_ESCAPES[k]
            elif m == "i":
                pre(c not in (110, 116, 114, 98, 102, 118, 48, 39, 34, 92, 120, 117, 10, 13, 0x2028, 0x2029))
                pre(not (49 <= c <= 57))
                text = text + "\\" + chr(c)
                value = value + chr(c)
            elif m == "c":
                pre(c in LT_CODES)
                text = text + "\\" + chr(c)
            else:
                raise KeyError(m)
        text = text + quote
        src = "x = " + text + ";"
        from microjs.errors import JSSyntaxError
        try:
            t = parse(src)
        except JSSyntaxError as e:
            return "string literal is rejected: " + str(e)
        cover("judged")
        got = t.body[0].expression.right.value
        if got != value:
            return "string literal does not denote the characters written"
        return True
    string_case.__annotations__ = {"c0": int, "c1": int, "c2": int, "return": bool}
    return string_case


def string_sym_replay(quote, modes):
    def rp(c0, c1, c2):
        text = quote
        for c, m in zip((c0, c1, c2), modes):
            text += chr(c) if m == "r" else "\\" + chr(c)
        return {"source": "x = " + text + quote + ";"}
    return rp


CODEPOINTS = [0, 1, 9, 10, 13, 0x1F, 0x20, 0x22, 0x27, 0x41, 0x5C, 0x7F, 0x80, 0xA0, 0xFF, 0x100, 0x7FF, 0x800, 0x2028, 0x2029, 0xD7FF, 0xD800,
              0xDFFF, 0xE000, 0xFEFF, 0xFFFF, 0x10000, 0x1F600, 0x10FFFF]


def escape_case(ci: int, form: int, dq: bool, upper: bool, pad: int) -> bool:
    """\\xHH, \\uHHHH, \\u{H...} (with leading zeros), surrogate pairs and the raw character all denote the same string."""
    cp = pick(ci, CODEPOINTS)
    f = pick(form, ["x", "u4", "ubrace", "pair", "raw"])
    pz = pick(pad, [0, 1, 3])
    with NoTracing():
        quote = '"' if dq else "'"
        hx = ("%X" if upper else "%x")
        if f == "x":
            if cp > 0xFF:
                return True
            body, want = "\\x" + (("%02X" if upper else "%02x") % cp), chr(cp)
        elif f == "u4":
            if cp > 0xFFFF:
                return True
            body, want = "\\u" + (("%04X" if upper else "%04x") % cp), chr(cp)
        elif f == "ubrace":
            body, want = "\\u{" + "0" * pz + (hx % cp) + "}", chr(cp)
        elif f == "pair":
            if cp < 0x10000:
                return True
            hi, lo = 0xD800 + ((cp - 0x10000) >> 10), 0xDC00 + ((cp - 0x10000) & 0x3FF)
            body, want = "\\u%04x\\u%04x" % (hi, lo), chr(hi) + chr(lo)
        else:
            if cp in (10, 13, 0x5C, ord(quote)) or 0xD800 <= cp <= 0xDFFF:
                return True
            body, want = chr(cp), chr(cp)
        src = "x = " + quote + "a" + body + "b" + quote + ";"
        out = parse_outcome(src)
        cover("judged")
        if out[0] != "tree":
            return "%r: engine raises %s" % (src, out[1])
        got = out[1]["body"][0]["expression"]["right"]["value"]
        if got != "a" + want + "b" and not (f == "pair" and got == "a" + chr(cp) + "b"):
            return "%r denotes %r, ECMAScript %r" % (src, got, "a" + want + "b")
    return True


# ------------------------------------------------------------------------------------------- rejection
def make_reject_closer(src):
    def closer_case(i):
        with NoTracing():
            tree, toks, noline, n_expr, want = prog_info(src)
            idx = [k for k, t in enumerate(toks) if t in (")", "]", "}")]
        pre(len(idx) > 0)
        k = idx[pick_range(i, len(idx))]
        with NoTracing():
            text = S.render(toks[:k] + toks[k + 1:])
            out = parse_outcome(text)
            cover("judged")
            if out[0] != "syntax":
                return "closing %r (token %d) deleted: engine %s (%s) for %r" % (toks[k], k, out[0], str(out[1])[:80], text[:300])
        return True
    closer_case.__annotations__ = {"i": int, "return": bool}
    return closer_case


def reject_closer_replay(src):
    def rp(i):
        tree, toks, noline, n_expr, want = prog_info(src)
        idx = [k for k, t in enumerate(toks) if t in (")", "]", "}")]
        k = idx[i]
        return {"source": S.render(toks[:k] + toks[k + 1:]), "must": "JSSyntaxError"}
    return rp


def make_reject_opener(src):
    def opener_case(i):
        with NoTracing():
            tree, toks, noline, n_expr, want = prog_info(src)
            idx = [k for k, t in enumerate(toks) if t in ("(", "[", "{")]
        pre(len(idx) > 0)
        k = idx[pick_range(i, len(idx))]
        with NoTracing():
            text = S.render(toks[:k] + toks[k + 1:])
            out = parse_outcome(text)
            cover("judged")
            if out[0] == "host":
                return "opening %r (token %d) deleted: engine raises %s for %r" % (toks[k], k, out[1], text[:300])
            if out[0] == "tree":
                # unbalanced brackets: nothing a conforming parser accepts
                return "opening %r (token %d) deleted: engine accepts %r" % (toks[k], k, text[:300])
        return True
    opener_case.__annotations__ = {"i": int, "return": bool}
    return opener_case


TERMINATED = [
    # (name, text before, the terminator to delete, text after)  -- the rest holds no second terminator on that line
    ("dq-string", "var s = \"ab", "\"", "; s + 1;"),
    ("sq-string", "var s = 'ab", "'", "; s + 1;"),
    ("dq-string-eof", "f(\"x", "\"", ")"),
    ("sq-string-newline", "var s = 'ab", "'", ";\nvar t = 1;"),
    ("dq-escaped-quote", "var s = \"a\\\"", "\"", "; s;"),
    ("block-comment", "var a = 1; /* note ", "*/", " a + 1;"),
    ("block-comment-eof", "a = 1; /* ", "*/", ""),
    ("block-comment-star", "a = 1; /* * / ", "*/", " a;"),
    ("regex", "var r = /ab+c", "/", "; r.test(s);"),
    ("regex-class", "var r = /a[/]b", "/", ".test(s);"),
    ("regex-flags", "var r = /ab", "/", "g;\nr.lastIndex;"),
    ("regex-escaped", "x = /a\\/b", "/", ";"),
    ("regex-arg", "s.replace(/x", "/", ", 'y');"),
]


def make_reject_terminator(item):
    name, before, term, after = item

    def terminator_case(c0, c1):
        """symbolic characters c0 c1 inside the literal/comment, then the terminator is left out"""
        pre(0 <= c0 < 0x110000 and 0 <= c1 < 0x110000)
        for c in (c0, c1):
            pre(c not in (34, 39, 92, 47, 42, 91, 93) and c not in LT_CODES)
        fill = chr(c0) + chr(c1)
        from microjs.errors import JSSyntaxError
        ok_src = before + fill + term + after
        bad_src = before + fill + after
        try:
            parse(ok_src)
        except JSSyntaxError as e:
            if name.startswith("regex"):
                return True         # the pattern itself may be malformed; only well-formed terminated forms are judged
            return "terminated form is rejected: " + str(e)
        cover("accepted-when-terminated")
        try:
            parse(bad_src)
        except JSSyntaxError:
            cover("judged")
            return True
        return "unterminated %s is accepted" % name
    terminator_case.__annotations__ = {"c0": int, "c1": int, "return": bool}
    return terminator_case


def terminator_replay(item):
    name, before, term, after = item

    def rp(c0, c1):
        return {"source": before + chr(c0) + chr(c1) + after, "must": "JSSyntaxError", "terminated": before + chr(c0) + chr(c1) + term + after}
    return rp


# ------------------------------------------------------------------------------------------- registry
def corpus_programs(thorough):
    out = [("snip%02d" % i, s) for i, s in enumerate(CORPUS.SNIPPETS)]
    sk = CORPUS.skeleton_programs()
    step = 1 if thorough else 37
    out += [("skel." + n, s) for n, s in sk[::step]]
    for n, s in CORPUS.repo_files(max_bytes=None if thorough else 1200):
        out.append(("repo." + n.replace("/", ".").replace(".js", ""), s))
    return out


def kind_id(k):
    import re
    return "%02d_%s" % (k, re.sub(r"[^A-Za-z0-9]", "", G.NAMES[k]))


def harnesses():
    hs = []
    nk = len(G.KINDS)
    allk = list(range(nk))
    reps = G.REPRESENTATIVES
    # precedence: every pair of operator kinds in every position
    for k0 in allk:
        nm = kind_id(k0)
        hs.append(Harness(
            id="C13.prec.pair.%s" % nm, fn=make_prec(k0, allk, None, False), group="prec.pair", functions=FNS, per_path=10,
            budget=60, require=("judged",) if G.KINDS[k0][3] == () or True else (), replay=prec_replay(k0, allk, None, False),
            bounds=["root operator %s; second operator: any of the %d kinds in any operand position; printed with the parentheses "
                    "the ECMAScript grammar requires; valid trees must parse to themselves, non-reference targets must be rejected"
                    % (G.NAMES[k0], nk)]))
        hs.append(Harness(
            id="C13.parens.pair.%s" % nm, fn=make_prec(k0, allk, None, True), group="parens.pair", functions=FNS, per_path=10,
            budget=120, require=("judged",), replay=prec_replay(k0, allk, None, True),
            tier="quick" if k0 in G.REPRESENTATIVES_QUICK else "thorough",
            bounds=["as prec.pair, plus one redundant pair of parentheses around any one sub-expression (operands, targets, callees)"]))
    rq0 = G.REPRESENTATIVES_QUICK
    for k0 in reps:
        nm = kind_id(k0)
        hs.append(Harness(
            id="C13.parens.pair2.%s" % nm, fn=make_prec(k0, rq0 if k0 in rq0 else reps, None, 2), group="parens.pair", functions=FNS, per_path=10,
            budget=300, require=("judged",), replay=prec_replay(k0, rq0 if k0 in rq0 else reps, None, 2),
            tier="quick" if k0 in rq0 else "thorough",
            bounds=["root %s, second operator one representative per binding class, TWO redundant pairs of parentheses at any two "
                    "expression positions (nested or side by side)" % G.NAMES[k0]]))
        hs.append(Harness(
            id="C13.parens.triple2.%s" % nm, fn=make_prec(k0, rq0, rq0, 2), group="parens.triple", functions=FNS, per_path=10,
            budget=3000, require=("judged",), replay=prec_replay(k0, rq0, rq0, 2), tier="thorough",
            bounds=["root %s, two more representative operators, two redundant pairs of parentheses" % G.NAMES[k0]]))
    # precedence: triples
    rq = G.REPRESENTATIVES_QUICK
    for k0 in reps:
        nm = kind_id(k0)
        if k0 in rq:
            hs.append(Harness(
                id="C13.prec.triple-q.%s" % nm, fn=make_prec(k0, rq, rq, False), group="prec.triple", functions=FNS, per_path=10,
                budget=300, require=("judged",), replay=prec_replay(k0, rq, rq, False),
                bounds=["root %s; two more operators, each one of %d representatives, in every tree shape" % (G.NAMES[k0], len(rq))]))
        hs.append(Harness(
            id="C13.prec.triple.%s" % nm, fn=make_prec(k0, reps, reps, False), group="prec.triple", functions=FNS, per_path=10,
            budget=600, tier="thorough", require=("judged",), replay=prec_replay(k0, reps, reps, False),
            bounds=["root %s; two more operators, each one of %d representatives (one per binding class), in every tree shape" % (G.NAMES[k0], len(reps))]))
        hs.append(Harness(
            id="C13.prec.triple-full.%s" % nm, fn=make_prec(k0, allk, reps, False), group="prec.triple", functions=FNS, per_path=10,
            budget=1500, tier="thorough", require=("judged",), replay=prec_replay(k0, allk, reps, False),
            bounds=["root %s; second operator any of the %d kinds, third one of %d representatives; every tree shape" % (G.NAMES[k0], nk, len(reps))]))
        hs.append(Harness(
            id="C13.parens.triple.%s" % nm, fn=make_prec(k0, reps, reps, True), group="parens.triple", functions=FNS, per_path=10,
            budget=3000, tier="thorough", require=("judged",), replay=prec_replay(k0, reps, reps, True),
            bounds=["as prec.triple plus one redundant pair of parentheses at any expression position"]))
    for k0 in G.BINARY_KINDS:
        nm = kind_id(k0)
        hs.append(Harness(
            id="C13.prec.binary3.%s" % nm, fn=make_prec(k0, G.BINARY_KINDS, G.BINARY_KINDS, False), group="prec.triple", functions=FNS,
            per_path=10, budget=600, tier="thorough", require=("judged",), replay=prec_replay(k0, G.BINARY_KINDS, G.BINARY_KINDS, False),
            bounds=["all triples of the 24 binary/logical operators rooted at %s, every tree shape" % G.NAMES[k0]]))
    # assignment / update / for-in/of targets
    hs.append(Harness(id="C13.reject.target", fn=lambda fi, ti: target_case(fi, ti, False), group="reject", functions=FNS, budget=120,
                      require=("rejected",), replay=lambda fi, ti: {"source": TARGET_FORMS[fi] % LEAF_TARGETS[ti], "must": "JSSyntaxError"},
                      bounds=["%d statement forms x %d non-reference target expressions" % (len(TARGET_FORMS), len(LEAF_TARGETS))]))
    hs[-1].fn.__annotations__ = {"fi": int, "ti": int, "return": bool}
    hs.append(Harness(id="C13.accept.target", fn=lambda fi, ti: target_case(fi, ti, True), group="reject", functions=FNS, budget=120,
                      require=("accepted",), replay=lambda fi, ti: {"source": TARGET_FORMS[fi] % REF_TARGETS[ti], "must": "accept"},
                      bounds=["the same forms with %d reference targets (incl. parenthesised ones) must be accepted" % len(REF_TARGETS)]))
    hs[-1].fn.__annotations__ = {"fi": int, "ti": int, "return": bool}
    # layout with symbolic trivia in every token-class context
    for ctx in CONTEXTS:
        for kind, quick, budget in (("ws", True, 200), ("ws2", False, 900), ("block0", True, 30), ("block1", True, 200),
                                    ("block2", True, 400), ("line", True, 400)):
            if kind == "line" and ctx[3]:
                continue
            if kind in ("ws", "block2") and ctx[0] not in QUICK_CONTEXTS:
                quick = False
            hs.append(Harness(
                id="C13.layout.sym.%s.%s" % (ctx[0], kind), fn=make_layout_sym(ctx, kind), group="layout.sym", functions=FNS,
                per_path=60, budget=budget, budget_thorough=budget * 3, tier="quick" if quick else "thorough", require=("judged",),
                replay=layout_sym_replay(ctx, kind),
                bounds=["context %r | %r; trivia %s with symbolic characters over all Unicode code points (%s)" % (
                    ctx[1], ctx[2], kind, "no line terminators: restricted position" if ctx[3] else "any")]))
    # literals
    hs.append(Harness(id="C13.literal.radix", fn=radix_case, group="literal", functions=FNS, budget=600, per_path=10, require=("judged",),
                      bounds=["1-4 digits in base 16/8/2, both prefix cases, both digit cases, against 8 decimal spellings of the same value"]))
    def make_dec(part, quick, mod):
        def dec(mi, p, e, cap, plus):
            pre((mi + (0 if quick else 4 * (e % 4))) % mod == part)
            return decimal_case(mi, p, e, cap, plus, quick)
        dec.__annotations__ = {"mi": int, "p": int, "e": int, "cap": bool, "plus": bool, "return": bool}
        return dec
    for part in range(4):
        hs.append(Harness(id="C13.literal.decimal.%d" % part, fn=make_dec(part, True, 4), group="literal", functions=FNS, budget=600, per_path=10,
                          require=("judged",),
                          bounds=["mantissa from %d digit strings, point at 5 positions, exponent from %d boundary values, e/E, explicit +; "
                                  "value against exact rational arithmetic rounded once" % (len(MANTISSAS), len(EXPONENTS))]))
    for part in range(16):
        hs.append(Harness(id="C13.literal.decimal-full.%d" % part, fn=make_dec(part, False, 16), group="literal", functions=FNS, budget=3000,
                          per_path=10, require=("judged",), tier="thorough",
                          bounds=["as literal.decimal with the point at every position and every exponent in -330..310"]))
    for quote in ('"', "'"):
        qn = "dq" if quote == '"' else "sq"
        for modes in ("r", "e", "i", "c", "rr", "re", "er", "ri", "ir", "ee", "rc", "cr", "rrr", "rer", "iri"):
            quick = len(modes) <= 2 and (quote == '"' or len(modes) == 1)
            hs.append(Harness(
                id="C13.literal.string.%s.%s" % (qn, modes), fn=make_string_sym(quote, modes), group="literal", functions=FNS,
                per_path=60, budget=300 if len(modes) < 3 else 900, tier="quick" if quick else "thorough", require=("judged",),
                replay=string_sym_replay(quote, modes),
                bounds=["%d symbolic characters over all Unicode; spelling per character: %s (r raw, e single-character escape, "
                        "i identity escape, c line continuation)" % (len(modes), modes)]))
    hs.append(Harness(id="C13.literal.escape", fn=escape_case, group="literal", functions=FNS, budget=300, require=("judged",),
                      bounds=["%d boundary code points x {\\xHH, \\uHHHH, \\u{H..} with leading zeros, surrogate pair, raw} x quote x hex case"
                              % len(CODEPOINTS)]))
    # identifiers
    for name, tmpl in NAME_TEMPLATES:
        hs.append(Harness(id="C13.names.%s.1" % name, fn=make_names(tmpl, 1), group="roundtrip", functions=FNS, per_path=60, budget=300,
                          require=("judged",), tier="quick" if name in ("var-use", "member", "label") else "thorough",
                          bounds=["identifier = one symbolic letter/_/$ (all Unicode letters) in template %r" % tmpl]))
    hs.append(Harness(id="C13.names.var-use.2", fn=make_names(NAME_TEMPLATES[0][1], 2), group="roundtrip", functions=FNS, per_path=60,
                      budget=900, tier="thorough", require=("judged",), bounds=["identifier = two symbolic characters"]))
    # unterminated literals / comments with symbolic content
    for item in TERMINATED:
        hs.append(Harness(id="C13.reject.unterminated.%s" % item[0], fn=make_reject_terminator(item), group="reject", functions=FNS,
                          per_path=60, budget=300, require=("judged", "accepted-when-terminated"), replay=terminator_replay(item),
                          bounds=["%r + two symbolic characters + %r: accepted with the terminator %r, JSSyntaxError without" % (
                              item[1], item[3], item[2])]))
    # corpus programs: layout grid, redundant parentheses, round trip, deleted brackets
    quick_progs = corpus_programs(False)
    quick_ids = {n for n, _ in quick_progs}
    for n, src in corpus_programs(True):
        tier = "quick" if n in quick_ids else "thorough"
        big = len(src) > 2500
        tree, toks, _noline, n_expr, _want = prog_info(src)
        if not toks:
            continue
        has_brackets = any(t in ("(", "[", "{") for t in toks)
        tset = TRIVIA_BIG if big else (list(range(len(TRIVIA))) if tier == "thorough" else (TRIVIA_QUICK if n.startswith("snip") else TRIVIA_BIG + [13]))
        hs.append(Harness(id="C13.layout.grid.%s" % n, fn=make_layout_grid(src, tset, False),
                          group="layout.grid", functions=FNS, per_path=20, budget=600 if not big else 3000, tier=tier, require=("judged",),
                          replay=layout_grid_replay(src, tset, False),
                          bounds=["every token gap of corpus program %s x pinned trivia spellings (restricted gaps: no line terminators)" % n]))
        if n.startswith("snip"):
            full = list(range(len(TRIVIA)))
            hs.append(Harness(id="C13.layout.grid-full.%s" % n, fn=make_layout_grid(src, full, False), group="layout.grid", functions=FNS,
                              per_path=20, budget=900, tier="thorough", require=("judged",), replay=layout_grid_replay(src, full, False),
                              bounds=["every token gap of %s x all %d pinned trivia spellings" % (n, len(TRIVIA))]))
            hs.append(Harness(id="C13.layout.pairs.%s" % n, fn=make_layout_grid(src, TRIVIA_QUICK, True), group="layout.grid",
                              functions=FNS, per_path=20, budget=1200, tier="thorough", require=("judged",),
                              replay=layout_grid_replay(src, TRIVIA_QUICK, True),
                              bounds=["every two adjacent token gaps of %s x pairs of pinned trivia" % n]))
            hs.append(Harness(id="C13.layout.eval.%s" % n, fn=make_layout_eval(src), group="layout.eval", functions=FNS + ("microjs.context.Context.eval",),
                              per_path=20, budget=300, require=("judged",),
                              bounds=["%s evaluated with one trivia spelling at every gap at once and one redundant pair of parentheses at any "
                                      "expression: same result" % n]))
        if n_expr:
          hs.append(Harness(id="C13.parens.prog.%s" % n, fn=make_parens_prog(src), group="parens.prog", functions=FNS, per_path=20,
                          budget=300 if not big else 1500, tier=tier, require=("judged",), replay=parens_replay(src),
                          bounds=["one redundant pair of parentheses around any one expression of %s" % n]))
        if n_expr >= 2 and n.startswith("snip"):
          hs.append(Harness(id="C13.parens.prog2.%s" % n, fn=make_parens_prog2(src), group="parens.prog", functions=FNS, per_path=20,
                            budget=600, tier="quick", require=("judged",),
                            replay=lambda w1, w2, _s=src: {"source": S.render(S.tokens(prog_info(_s)[0], wrap_at=(w1, w2))[0])},
                            bounds=["two redundant pairs of parentheses at any two expression positions of %s" % n]))
        hs.append(Harness(id="C13.roundtrip.%s" % n, fn=make_roundtrip(src), group="roundtrip", functions=FNS, per_path=20, budget=200,
                          tier=tier, require=("judged",), bounds=["every top-level statement of %s: parse(print(tree)) == tree" % n]))
        if has_brackets:
          hs.append(Harness(id="C13.reject.closer.%s" % n, fn=make_reject_closer(src), group="reject", functions=FNS, per_path=20,
                          budget=200 if not big else 900, tier=tier, require=("judged",), replay=reject_closer_replay(src),
                          bounds=["each closing ) ] } of %s deleted in turn: JSSyntaxError" % n]))
        if has_brackets:
          hs.append(Harness(id="C13.reject.opener.%s" % n, fn=make_reject_opener(src), group="reject", functions=FNS, per_path=20,
                          budget=200 if not big else 900, tier=tier, require=("judged",),
                          bounds=["each opening ( [ { of %s deleted in turn: JSSyntaxError" % n]))
    return hs
