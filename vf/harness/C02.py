"""C02 - the memory limit stops runaway growth and never stops bounded scripts (DESIGN 4, C02)."""
from ..harness_api import Harness
from ..compat import pre, cover, known, StepBudget, NoTracing
from ..stubs import SizedList
from ..skel import stmts as S
from ..skel import exc as X

ASSUMPTIONS = [
    "the documented accounting: 100 bytes per operand-stack item + 200 bytes per call frame; heap data is not "
    "accounted (documented) and is out of scope",
    "runaway half: M symbolic in [300, 4000]; larger M is covered only by the linear extrapolation reported as "
    "m_star (accounted bytes and host frames per JavaScript level are measured on the explored depths)",
    "no-residue half: zero stack/handler delta per loop-head visit for every path of one iteration from an "
    "arbitrary depth (all VM instructions address the operand stack relative to its top); the induction over the "
    "iteration count is an argument made in DESIGN.md, not a machine-checked proof",
]


# ---- Lemma A: the accounting itself ----------------------------------------------------------------
def lemma_accounting(p: int, q: int, M: int, c: int) -> bool:
    pre(p >= 0 and q >= 0 and M > 0 and c >= 0)
    from microjs.vm import VM
    from microjs.errors import MemoryLimitError
    vm = VM(memory_limit=M, time_limit=None)
    vm.instruction_count = c
    vm.stack = SizedList(p)
    vm.call_stack = SizedList(q)
    try:
        vm._check_limits()
        got = False
    except MemoryLimitError:
        got = True
    want = 100 * p + 200 * q > M
    cover("raised", got)
    cover("passed", not got)
    if got != want:
        return "stack=%r frames=%r M=%r: %s, documented accounting says %s" % (p, q, M, got, want)
    return True


# ---- runaway recursion -----------------------------------------------------------------------------
RUNAWAY = {
    "self": "function r(n) { return r(n + 1) + 1; } r(0);",
    "mutual": "function p(n) { return q(n + 1) + 1; } function q(n) { return p(n) + 2; } p(0);",
    "method": "var o = { m: function(n) { return this.m(n + 1); } }; o.m(0);",
    "constructor": "function F(n) { this.c = new F(n + 1); } new F(0);",
    "closure": "function mk() { var f = function(n) { return f(n + 1) + 1; }; return f; } mk()(0);",
    "arrow": "var a = (n) => a(n + 1) + 1; a(0);",
    "cb.forEach": "function f() { [1].forEach(f); } f();",
    "cb.map": "function f() { return [1].map(f); } f();",
    "cb.filter": "function f() { return [1].filter(f); } f();",
    "cb.some": "function f() { return [1].some(f); } f();",
    "cb.every": "function f() { return [1].every(f); } f();",
    "cb.find": "function f() { return [1].find(f); } f();",
    "cb.reduce": "function f() { return [1, 2].reduce(f); } f();",
    "cb.sort": "function f() { [2, 1].sort(f); return 0; } f();",
    "getter": "var o = { get x() { return o.x; } }; o.x;",
    "setter": "var o = { set x(v) { o.x = v; } }; o.x = 1;",
    "valueOf": "var o = { valueOf: function() { return o + 1; } }; o + 1;",
    "toString": "var o = { toString: function() { return '' + o; } }; '' + o;",
    "call": "function f() { return f.call(null); } f();",
    "apply": "function f() { return f.apply(null, []); } f();",
    "bind": "function f() { return f.bind(null)(); } f();",
    "operands": "function f(n) { return [n, [n, [n, f(n + 1)]]]; } f(0);",
    "eval": "function f() { return (0, eval)('f()'); } f();",
    "new-Function": "function f() { return new Function('return f()')(); } f();",
}


def make_runaway(name):
    src = "var L = []; try { %s } catch (e) { L.push('catch'); } finally { L.push('finally'); }" % RUNAWAY[name]

    def h(M):
        pre(300 <= M <= 4000)
        from ..jsrun import compile_js, new_context, run_compiled
        from microjs.errors import MemoryLimitError, JSError
        import microjs.vm as vmmod
        compiled = compile_js(src)
        ctx = new_context()
        ctx.memory_limit = M
        over = [None]
        orig_check = vmmod.VM._check_limits

        def check_mon(self):
            orig_check(self)
            if self.memory_limit and over[0] is None:
                used = 100 * len(self.stack) + 200 * len(self.call_stack)
                if used > self.memory_limit:
                    over[0] = used
        vmmod.VM._check_limits = check_mon
        try:
            try:
                run_compiled(ctx, compiled, max_steps=4000)
                outcome = "returned"
            except MemoryLimitError:
                outcome = "MemoryLimitError"
            except JSError as e:
                outcome = "JSError(%s)" % (str(e)[:80],)
            except RecursionError:
                outcome = "RecursionError"
        finally:
            vmmod.VM._check_limits = orig_check
        cover("stopped", outcome == "MemoryLimitError")
        if outcome != "MemoryLimitError":
            return "runaway recursion (%s) under memory_limit=%r ended with %s" % (name, M, outcome)
        if over[0] is not None:
            return "an instruction ran with %r accounted bytes > M=%r before the stop" % (over[0], M)
        log = ctx._globals.get("L")
        if getattr(log, "_elements", []):
            return "script handlers ran on the memory stop: %r" % (log._elements,)
        return True
    h.__annotations__ = {"M": int, "return": bool}
    return h


# ---- runaway recursion at realistic limits (through the public API, concrete M) -------------------------
LARGE_M = [20000, 100000, 500000, 1024 * 1024, 5000000]


def make_runaway_large(name):
    src = "var L = []; try { %s } catch (e) { L.push('catch'); } finally { L.push('finally'); } L.length" % RUNAWAY[name]

    def h(k):
        pre(0 <= k < len(LARGE_M))
        M = None
        for i in range(len(LARGE_M)):
            if k == i:
                M = LARGE_M[i]
        with NoTracing():
            from microjs import Context
            from microjs.errors import MemoryLimitError, JSError
            ctx = Context(memory_limit=M, time_limit=120)
            try:
                r = ctx.eval(src)
                outcome = "returned %r" % (r,)
            except MemoryLimitError:
                outcome = "MemoryLimitError"
            except JSError as e:
                outcome = "%s(%s)" % (type(e).__name__, str(e)[:80])
            except RecursionError:
                outcome = "host RecursionError"
            cover("stopped", outcome == "MemoryLimitError")
            if outcome != "MemoryLimitError":
                return "runaway recursion (%s) under memory_limit=%d ended with %s" % (name, M, outcome)
            try:
                if ctx.eval("1 + 1") != 2:
                    return "context unusable after the stop"
            except Exception as e:  # noqa: BLE001
                return "context unusable after the stop: %r" % (e,)
        return True
    h.__annotations__ = {"k": int, "return": bool}
    return h


# ---- no residue: every loop-head visit sees the same depths ----------------------------------------
def make_residue(src, closure=False):
    def h(N, C0, C1, C2):
        pre(0 <= N <= 3 and -1 <= C0 <= 3 and -1 <= C1 <= 3 and -1 <= C2 <= 3)
        from ..diffrun import run_engine
        seen = {}
        bad = []

        def probe(ctx):
            vm = ctx._current_vm
            if vm is None or len(vm.call_stack) < 2:
                return
            fr = vm.call_stack[-2]              # the frame that called probe()
            site = (id(fr.func), fr.ip, len(vm.call_stack))
            cur = (len(vm.stack), len(vm.exception_handlers))
            if site in seen:
                if seen[site] != cur and not bad:
                    bad.append((seen[site], cur))
            else:
                seen[site] = cur
        data = {"N": N, "C0": C0, "C1": C1, "C2": C2, "K0": C0 % 4, "K1": C1 % 4, "K2": C2 % 4}
        try:
            _log, out, ctx = run_engine(src, data, probe=probe)
        except StepBudget:
            return "step budget exhausted"
        cover("visited-twice", len(seen) > 0)
        if bad:
            return "loop head revisited with different depths (operands, handlers): %r then %r" % bad[0]
        vm = ctx._last_vm
        if out[0] == "value" and (len(vm.stack) != 0 or len(vm.exception_handlers) != 0 or len(vm.call_stack) != 0):
            return "after the program: %d operands, %d handlers, %d frames left" % (
                len(vm.stack), len(vm.exception_handlers), len(vm.call_stack))
        return True
    h.__annotations__ = {"N": int, "C0": int, "C1": int, "C2": int, "return": bool}
    return h


# mid-expression throws that are caught, try/finally exits: residue programs of their own
def residue_extra():
    out = []
    w = S.wrap_main
    L = S.loop
    for lk in S.LOOPS:
        out.append(("throw-mid-expr.%s" % lk, w(
            "function g(x) { if (x === C0) { throw 'boom'; } return x; } function k(a, b, c) { return a + b + c; } "
            + L(lk, "i", "N", "try { R = k(1, g(@), k(2, g(@ + 1), 3)); } catch (e) { log('c', e); } log('b', @);"))))
        out.append(("throw-in-callee-loop.%s" % lk, w(
            "function g(x) { " + L(lk, "q", "N", "if (q === C0) { throw q; }").replace("probe();", "") + " return x; } "
            + L("for", "i", "3", "try { R = 1 + g(@); } catch (e) { log('c', e); } log('b', @);"))))
        for ek in ("break", "continue", "return"):
            out.append(("try-finally.%s.%s" % (lk, ek), w(
                L(lk, "i", "N", "try { log('t', @); if (@ === C0) { %s } log('u', @); } finally { log('f', @); } log('b', @);"
                  % S.exit_stmt(ek)))))
            out.append(("try-catch.%s.%s" % (lk, ek), w(
                L(lk, "i", "N", "try { if (@ === C1) { throw @; } log('u', @); } catch (e) { log('c', e); if (e === C0) { %s } } log('b', @);"
                  % S.exit_stmt(ek).replace("@", "e")))))
    return out


def harnesses():
    hs = []
    hs.append(Harness(id="C02.lemma.accounting", fn=lemma_accounting,
                      bounds=["operand depth, frame depth: any integers >= 0; M: any integer > 0"],
                      per_path=30, budget=60, require=("raised", "passed"), group="lemma",
                      functions=("microjs.vm.VM._check_limits",)))
    for name in RUNAWAY:
        hs.append(Harness(id="C02.runaway." + name, fn=make_runaway(name),
                          bounds=["M: any integer in [300, 4000]", "recursion shape: " + name],
                          per_path=60, budget=300, budget_thorough=600, require=("stopped",), group="runaway",
                          functions=("microjs.vm.VM._execute", "microjs.vm.VM._call_callback",
                                     "microjs.vm.VM._check_limits", "microjs.vm.VM._invoke_js_function")))
    for name in RUNAWAY:
        hs.append(Harness(id="C02.runaway-large." + name, fn=make_runaway_large(name),
                          bounds=["M: solver-chosen index into %r (the README documents 1024*1024)" % (LARGE_M,),
                                  "recursion shape: " + name, "run through the public Context.eval"],
                          per_path=300, budget=900, require=("stopped",), group="runaway at realistic M",
                          functions=("microjs.context.Context.eval",)))
    progs = S.programs() + residue_extra() + [("exc." + i, src) for i, src in X.programs()]
    for pid, src in progs:
        hs.append(Harness(id="C02.residue." + pid, fn=make_residue(src),
                          bounds=["N in [0,3], C0..C2 in [-1,3] (symbolic)", "program: " + pid],
                          per_path=30, budget=200, budget_thorough=400, group="no residue",
                          functions=("microjs.compiler.Compiler.compile (untraced)", "microjs.vm.VM._execute",
                                     "microjs.vm.VM._throw", "microjs.vm.VM._execute_opcode")))
    return hs
