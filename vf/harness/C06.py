"""C06 - operators and conversions on primitive values follow ECMAScript (DESIGN 4, C06).

Each harness drives one real opcode handler (`VM._execute_opcode`) on a prepared operand stack
with symbolic operands of one type pair and compares with refsem.ops on the same symbolic data.
"""
from ..harness_api import Harness
from ..compat import pre, cover, known, note
from ..refsem import ops as R
from ..refsem.num import UNDEF, NULL, Unspecified
from .. import domains as D

ASSUMPTIONS = [
    "engine integers are in the int representation's valid range |n| <= 2**53",
    "Number::remainder and Number::exponentiate are judged exactly only where refsem transcribes them "
    "(special values, integer operands, |a|<|b|; pow at the specified special points and exponents 1, 2, -1); "
    "elsewhere only type and totality are judged (host fmod/pow are out of the solver's reach)",
]

BINOPS = ["ADD", "SUB", "MUL", "DIV", "MOD", "POW", "BAND", "BOR", "BXOR", "SHL", "SHR", "USHR",
          "LT", "LE", "GT", "GE", "EQ", "NE", "SEQ", "SNE"]
UNOPS = ["NEG", "POS", "NOT", "BNOT", "TYPEOF", "INC", "DEC"]

TWO53 = 2 ** 53


def run_binop(op, a, b):
    from microjs.vm import VM
    from microjs.opcodes import OpCode
    vm = VM()
    vm.stack = [a, b]
    vm._execute_opcode(OpCode[op], None, None)
    assert len(vm.stack) == 1
    return vm.stack[0]


def run_unop(op, a):
    from microjs.vm import VM
    from microjs.opcodes import OpCode
    vm = VM()
    vm.stack = [a]
    vm._execute_opcode(OpCode[op], None, None)
    assert len(vm.stack) == 1
    return vm.stack[0]


def judge(got, want, what):
    if want is R.UNSPEC:
        cover("unspecified-by-oracle")
        ok = isinstance(got, (int, float)) and not isinstance(got, bool)
        return True if ok else "%s: result %s is not a number" % (what(), D.show(got))
    try:
        ok = D.same(got, want)
    except Unspecified:
        cover("unspecified-by-oracle")
        return True
    cover("judged")
    if ok:
        return True
    return "%s: engine %s, ECMAScript %s" % (what(), D.show(got), D.show(want))


PY = {"flt": float, "int": int, "str": str, "bool": bool}

NAN, INF = float("nan"), float("inf")
# pinned operand grid (engine representation: Python int or float, booleans, null, undefined, strings)
NUMS = [0, 1, -1, 2, 3, -7, 31, 32, 33, 255, 2 ** 31 - 1, 2 ** 31, -2 ** 31, 2 ** 32 - 1, 2 ** 32,
        2 ** 32 + 5, 2 ** 53 - 1, 2 ** 53, -2 ** 53,
        NAN, INF, -INF, -0.0, 0.0, 0.5, -0.5, 1.5, 2.5, -1.5, 1e21, 1e-7, 4294967296.5, -2147483648.5,
        2147483647.5, 1.7976931348623157e308, 5e-324, 0.1, 3.0, -8.0, 1 / 3]
STRS = ["", " ", "0", "1", "-1", "1.5", "abc", "0x10", "1e3", "Infinity", "-Infinity", " 12 ", "1_0", ".5",
        "5.", "+", "-", "a", "A", "b", "10", "9", "null", "undefined", "true", "NaN", "\t\n", "-0", "0b11",
        "0o17", "1e", "é"]
OTHERS = [True, False, NULL, UNDEF]


def pick(i, grid):
    pre(0 <= i < len(grid))
    for k in range(len(grid)):
        if i == k:
            return grid[k]
    raise AssertionError


def bound(t, v, slen):
    if t == "int":
        pre(-TWO53 <= v <= TWO53)
    elif t == "str":
        pre(len(v) <= slen)


def oracle_binop(op, x, y):
    try:
        return R.binop(op, D.to_ref(x), D.to_ref(y))
    except Unspecified:
        cover("unspecified-by-oracle")
        return None


def make_binop(op, ta, tb, slen):
    def h(a, b):
        bound(ta, a, slen)
        bound(tb, b, slen)
        want = oracle_binop(op, a, b)
        got = run_binop(op, a, b)
        if want is None:
            return True
        return judge(got, want, lambda: "%s %s %s" % (D.show(a), op, D.show(b)))
    h.__annotations__ = {"a": PY[ta], "b": PY[tb], "return": bool}
    return h


def make_grid_binop(op, ga, gb):
    """Both operands chosen from pinned grids by symbolic indices (concrete per path)."""
    def h(i, j):
        a = D.to_engine(pick(i, ga))
        b = D.to_engine(pick(j, gb))
        want = oracle_binop(op, a, b)
        got = run_binop(op, a, b)
        if want is None:
            return True
        return judge(got, want, lambda: "%s %s %s" % (D.show(a), op, D.show(b)))
    h.__annotations__ = {"i": int, "j": int, "return": bool}
    return h


def make_pin_binop(op, grid, tb, slen, pin_left):
    """One operand from a pinned grid, the other fully symbolic."""
    def h(i, b):
        bound(tb, b, slen)
        p = D.to_engine(pick(i, grid))
        x, y = (p, b) if pin_left else (b, p)
        want = oracle_binop(op, x, y)
        got = run_binop(op, x, y)
        if want is None:
            return True
        return judge(got, want, lambda: "%s %s %s" % (D.show(x), op, D.show(y)))
    h.__annotations__ = {"i": int, "b": PY[tb], "return": bool}
    return h


def make_unop(op, ta, slen):
    def h(a):
        bound(ta, a, slen)
        try:
            want = R.unop(op, D.to_ref(a))
        except Unspecified:
            cover("unspecified-by-oracle")
            return True
        got = run_unop(op, a)
        return judge(got, want, lambda: "%s %s" % (op, D.show(a)))
    h.__annotations__ = {"a": PY[ta], "return": bool}
    return h


def make_grid_unop(op, grid):
    def h(i):
        a = D.to_engine(pick(i, grid))
        try:
            want = R.unop(op, D.to_ref(a))
        except Unspecified:
            cover("unspecified-by-oracle")
            return True
        got = run_unop(op, a)
        return judge(got, want, lambda: "%s %s" % (op, D.show(a)))
    h.__annotations__ = {"i": int, "return": bool}
    return h


def make_conv(name, ta):
    """ToInt32 / ToUint32 / ToBoolean lemmas on the real helpers."""
    def h(a):
        bound(ta, a, 0)
        from microjs.vm import VM
        from microjs import values as V
        if name == "to_int32":
            got, want = VM()._to_int32(a), R.to_int32(a)
        elif name == "to_uint32":
            got, want = VM()._to_uint32(a), R.to_uint32(a)
        else:
            got, want = V.to_boolean(a), R.to_boolean(a)
            cover("judged")
            return True if (isinstance(got, bool) and got == want) else \
                "to_boolean(%s): engine %s, ES %s" % (D.show(a), got, want)
        cover("judged")
        if isinstance(got, int) and not isinstance(got, bool) and got == want:
            return True
        return "%s(%s): engine %s, ECMAScript %s" % (name, D.show(a), D.show(got), D.show(want))
    h.__annotations__ = {"a": PY[ta], "return": bool}
    return h


# ---- through eval: compound assignment and update on every target form -------------------------------
COMPOUND = {"+=": "ADD", "-=": "SUB", "*=": "MUL", "/=": "DIV", "%=": "MOD", "&=": "BAND",
            "|=": "BOR", "^=": "BXOR", "<<=": "SHL", ">>=": "SHR", ">>>=": "USHR"}
TARGETS = {
    "global": "x = A; R = (x OP B); [R, x]",
    "local": "(function(){ var x = A; var r = (x OP B); return [r, x]; })()",
    "captured": "(function(){ var x = A; function g(){ return x; } var r = (x OP B); return [r, g()]; })()",
    "member": "var o = {p: A}; R = (o.p OP B); [R, o.p]",
    "element": "var o = {}; var k = 'k'; o[k] = A; R = (o[k] OP B); [R, o[k]]",
    "array": "var o = [A]; R = (o[0] OP B); [R, o[0]]",
    "free": "(function(){ var x = A; function g(){ var r = (x OP B); return [r, x]; } return g(); })()",
    "free2": "(function(){ var x = A; function m(){ return function(){ var r = (x OP B); return r; }; } var r = m()(); return [r, x]; })()",
    "param": "(function(x){ var r = (x OP B); return [r, x]; })(A)",
    "arrow-free": "(function(){ var x = A; var g = () => { var r = (x OP B); return [r, x]; }; return g(); })()",
}
UPDATES = {
    "global": "x = A; R = (PRE x POST); [R, x]",
    "local": "(function(){ var x = A; var r = (PRE x POST); return [r, x]; })()",
    "captured": "(function(){ var x = A; function g(){ return x; } var r = (PRE x POST); return [r, g()]; })()",
    "member": "var o = {p: A}; R = (PRE o.p POST); [R, o.p]",
    "element": "var o = {}; var k = 'k'; o[k] = A; R = (PRE o[k] POST); [R, o[k]]",
    "array": "var o = [A]; R = (PRE o[0] POST); [R, o[0]]",
    "free": "(function(){ var x = A; function g(){ var r = (PRE x POST); return [r, x]; } return g(); })()",
    "free2": "(function(){ var x = A; function m(){ return function(){ var r = (PRE x POST); return r; }; } var r = m()(); return [r, x]; })()",
    "param": "(function(x){ var r = (PRE x POST); return [r, x]; })(A)",
    "arrow-free": "(function(){ var x = A; var g = () => { var r = (PRE x POST); return [r, x]; }; return g(); })()",
}
SMALL = [0, 1, -1, 7, 2 ** 31, 2 ** 53, NAN, INF, -0.0, 0.5, -2.5, 1e21, "", "3", "a", " 12 ", True, NULL, UNDEF]


def _pair(res):
    from microjs.values import JSArray
    if not isinstance(res, JSArray) or len(res._elements) != 2:
        return None
    return res._elements


def make_compound(opsym, target):
    src = TARGETS[target].replace("OP", opsym)
    opname = COMPOUND[opsym]

    def h(i, j):
        from ..jsrun import eval_concrete
        a = D.to_engine(pick(i, SMALL))
        b = D.to_engine(pick(j, SMALL))
        want = oracle_binop(opname, a, b)
        got = _pair(eval_concrete(src, {"A": a, "B": b}))
        if got is None:
            return "script did not return a pair"
        if want is None:
            return True
        r1 = judge(got[0], want, lambda: "value of (%s) on %s target" % (src, target))
        if r1 is not True:
            return r1
        return judge(got[1], want, lambda: "target after (%s), A=%s B=%s" % (src, D.show(a), D.show(b)))
    h.__annotations__ = {"i": int, "j": int, "return": bool}
    return h


def make_update(kind, target):
    pre_, post = {"x++": ("", "++"), "++x": ("++", ""), "x--": ("", "--"), "--x": ("--", "")}[kind]
    src = UPDATES[target].replace("PRE ", pre_).replace(" POST", post)

    def h(i):
        from ..jsrun import eval_concrete
        a = D.to_engine(pick(i, SMALL))
        old = R.to_number(D.to_ref(a))
        new = R.num_add(old, 1) if "++" in kind else R.num_sub(old, 1)
        want_value = new if pre_ else old
        got = _pair(eval_concrete(src, {"A": a}))
        if got is None:
            return "script did not return a pair"
        r1 = judge(got[0], want_value, lambda: "value of (%s) for A=%s" % (src, D.show(a)))
        if r1 is not True:
            return r1
        return judge(got[1], new, lambda: "target after (%s) for A=%s" % (src, D.show(a)))
    h.__annotations__ = {"i": int, "return": bool}
    return h


TREE_OPS = {"+": "ADD", "-": "SUB", "*": "MUL", "/": "DIV", "%": "MOD", "|": "BOR", "&": "BAND", "^": "BXOR",
            "<<": "SHL", ">>>": "USHR", ">>": "SHR", "<": "LT", ">=": "GE", "==": "EQ", "===": "SEQ", "**": "POW"}
TREE_VALS = [7, 2.5, 2 ** 31, -0.0, 2 ** 53, "2"]


def make_tree(left_assoc, s1, ops):
    """(a o1 b) o2 c  /  a o1 (b o2 c) with a solver-chosen second operator and operands: mixes the
    engine's int and float representations in intermediate results."""
    syms = list(ops)

    def h(o2, i, j, k):
        from ..jsrun import eval_concrete
        s2 = pick(o2, syms)
        a, b, c = pick(i, TREE_VALS), pick(j, TREE_VALS), pick(k, TREE_VALS)
        try:
            if left_assoc:
                want = R.binop(TREE_OPS[s2], R.binop(TREE_OPS[s1], a, b), c)
                src = "(A %s B) %s C" % (s1, s2)
            else:
                want = R.binop(TREE_OPS[s1], a, R.binop(TREE_OPS[s2], b, c))
                src = "A %s (B %s C)" % (s1, s2)
        except Unspecified:
            cover("unspecified-by-oracle")
            return True
        if want is R.UNSPEC:
            return True
        got = eval_concrete(src, {"A": a, "B": b, "C": c})
        return judge(got, want, lambda: "%s with A=%s B=%s C=%s" % (src, D.show(a), D.show(b), D.show(c)))
    h.__annotations__ = {"o2": int, "i": int, "j": int, "k": int, "return": bool}
    return h


def make_str_binop(op, slen):
    """Both operands symbolic strings (every code point), for the operators that do not convert to number."""
    def h(a, b):
        pre(len(a) <= slen and len(b) <= slen)
        known("KF-C06-nonbmp-order", op in ("LT", "LE", "GT", "GE")
              and (any(ord(ch) > 0xFFFF for ch in a) or any(ord(ch) > 0xFFFF for ch in b)))
        want = R.binop(op, a, b)
        got = run_binop(op, a, b)
        return judge(got, want, lambda: "%s %s %s" % (D.show(a), op, D.show(b)))
    h.__annotations__ = {"a": str, "b": str, "return": bool}
    return h


def make_logic(kind):
    """&&, ||, ?: and ! lowering: the selected operand itself is the result (no conversion)."""
    src = {"and": "A && B", "or": "A || B", "cond": "A ? B : C", "notnot": "!!A"}[kind]

    def h(i, j):
        from ..jsrun import eval_concrete
        grid = SMALL
        a = D.to_engine(pick(i, grid))
        b = D.to_engine(pick(j, grid))
        t = R.to_boolean(D.to_ref(a))
        got = eval_concrete(src, {"A": a, "B": b, "C": "else"})
        if kind == "and":
            want = a if not t else b
        elif kind == "or":
            want = a if t else b
        elif kind == "cond":
            want = b if t else "else"
        else:
            want = t
        cover("judged")
        same = (got is want) or (type(got) is type(want) and D.same(got, D.to_ref(want)))
        return True if same else "%s with A=%s B=%s: engine %s, expected %s" % (
            src, D.show(a), D.show(b), D.show(got), D.show(want))
    h.__annotations__ = {"i": int, "j": int, "return": bool}
    return h


ARITH = ["ADD", "SUB", "MUL", "DIV", "MOD", "POW"]
BITS = ["BAND", "BOR", "BXOR", "SHL", "SHR", "USHR"]
REL = ["LT", "LE", "GT", "GE", "EQ", "NE", "SEQ", "SNE"]
FNS = ("microjs.vm.VM._execute_opcode", "microjs.vm.VM._add", "microjs.vm.VM._compare",
       "microjs.vm.VM._strict_equals", "microjs.vm.VM._abstract_equals", "microjs.vm.VM._to_int32",
       "microjs.vm.VM._to_uint32", "microjs.values.to_number", "microjs.values.to_string",
       "microjs.values.to_boolean", "microjs.values.js_typeof")


def harnesses():
    hs = []

    def add(id, fn, bounds, **kw):
        kw.setdefault("require", ("judged",))
        kw.setdefault("functions", FNS)
        hs.append(Harness(id="C06." + id, fn=fn, bounds=bounds, **kw))

    dbl = "operand: every IEEE-754 double (NaN, both zeros, infinities, subnormals included)"
    igr = "operand: every integer with |n| <= 2**53 (the engine's int representation)"
    # F1: both operands symbolic doubles
    for op in ["ADD", "SUB", "MUL", "DIV", "MOD"] + REL:
        slow = op in ("DIV", "MOD", "MUL")
        add("binop.%s.flt.flt" % op, make_binop(op, "flt", "flt", 0), [dbl], group="binop sym double x double",
            per_path=60 if slow else 20, budget=150 if slow else 60, budget_thorough=900 if slow else 120,
            tier="thorough" if op == "DIV" else "quick")
    # F2: both operands symbolic integers (exact integer reasoning)
    for op in ["ADD", "SUB", "MOD"] + REL:
        add("binop.%s.int.int" % op, make_binop(op, "int", "int", 0), [igr], group="binop sym int x int",
            per_path=20, budget=60)
    # F3: pinned grid x pinned grid, every operator (int/float representation mix, boundary values)
    grids = {"num": NUMS, "str": STRS, "oth": OTHERS}
    for op in ARITH + BITS + REL:
        for ga in grids:
            for gb in grids:
                add("binop.%s.grid.%s.%s" % (op, ga, gb), make_grid_binop(op, grids[ga], grids[gb]),
                    ["operands: solver-chosen indices into the pinned %s x %s grids (%d x %d values)"
                     % (ga, gb, len(grids[ga]), len(grids[gb]))],
                    group="binop grid", per_path=20, budget=200, budget_thorough=400)
    # F4: pinned operand x symbolic double / integer
    for op in ["ADD", "SUB", "MUL"] + REL:
        for side in ("l", "r"):
            add("binop.%s.pin%s.flt" % (op, side), make_pin_binop(op, NUMS[:19] + OTHERS, "flt", 0, side == "l"),
                ["one operand from the pinned integer/boolean/null/undefined grid, the other: " + dbl],
                group="binop pinned x sym double", per_path=30, budget=150, budget_thorough=300)
    # F5: conversions
    for name in ("to_int32", "to_uint32", "to_boolean"):
        add("conv.%s.flt" % name, make_conv(name, "flt"), [dbl], group="conversions", per_path=30, budget=120)
        add("conv.%s.int" % name, make_conv(name, "int"), [igr], group="conversions", per_path=30, budget=60)
    # F6: unary
    for op in UNOPS:
        if op in ("INC", "DEC"):
            continue        # compiled as ADD/SUB 1 (covered through eval below)
        add("unop.%s.grid" % op, make_grid_unop(op, NUMS + STRS + OTHERS),
            ["operand: solver-chosen index into the pinned grid (%d values)" % len(NUMS + STRS + OTHERS)],
            group="unary", budget=120)
        if op != "BNOT":
            add("unop.%s.flt" % op, make_unop(op, "flt", 0), [dbl], group="unary", budget=60)
        add("unop.%s.int" % op, make_unop(op, "int", 0), [igr], group="unary", budget=60)
    # F7: symbolic strings (every code point) for the operators that keep strings as strings
    for op in ["ADD"] + REL:
        add("binop.%s.str.str" % op, make_str_binop(op, 2),
            ["both operands: every string of length <= 2 over all code points"],
            group="binop sym str x str", per_path=20, budget=120, budget_thorough=300)
    # F8: through eval - compound assignment / update on every target form, logical operators
    for opsym in COMPOUND:
        for target in TARGETS:
            add("compound.%s.%s" % (COMPOUND[opsym], target), make_compound(opsym, target),
                ["operands: solver-chosen indices into a %d-value mixed grid; driven through Context.eval" % len(SMALL)],
                group="compound assignment", budget=150, functions=FNS + ("microjs.context.Context.eval",))
    for kind in ("x++", "++x", "x--", "--x"):
        for target in UPDATES:
            add("update.%s.%s" % ({"x++": "postinc", "++x": "preinc", "x--": "postdec", "--x": "predec"}[kind], target),
                make_update(kind, target), ["operand: index into the %d-value mixed grid" % len(SMALL)],
                group="update operators", budget=60, functions=FNS + ("microjs.context.Context.eval",))
    for kind in ("and", "or", "cond", "notnot"):
        add("logic.%s" % kind, make_logic(kind), ["operands: indices into the mixed grid"], group="logical",
            budget=120, functions=("microjs.context.Context.eval", "microjs.values.to_boolean"))
    # F9: expression trees (int/float representation mix in intermediate results)
    quick_ops = ["+", "-", "*", "/", "%", "|", "<<", ">>>", "<", "=="]
    names = {"+": "add", "-": "sub", "*": "mul", "/": "div", "%": "mod", "|": "bor", "&": "band", "^": "bxor",
             "<<": "shl", ">>>": "ushr", ">>": "shr", "<": "lt", ">=": "ge", "==": "eq", "===": "seq", "**": "pow"}
    for assoc in (True, False):
        for s1 in TREE_OPS:
            core = s1 in quick_ops
            add("tree.%s.%s" % ("left" if assoc else "right", names[s1]),
                make_tree(assoc, s1, quick_ops if core else list(TREE_OPS)),
                ["first operator %s, second operator: solver-chosen index into %d operators; operands: 3 indices "
                 "into %s" % (s1, len(quick_ops if core else TREE_OPS), TREE_VALS)],
                group="expression trees", budget=200, budget_thorough=400, per_path=20,
                tier="quick" if core else "thorough", require=(),
                functions=FNS + ("microjs.context.Context.eval",))
    return hs
