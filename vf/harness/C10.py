"""C10 - the regex engine is total: any pattern and subject, bounded work, no host errors (DESIGN 4, C10)."""
from ..harness_api import Harness
from ..compat import pre, cover, known, NoTracing, StepBudget
from ..refsem import regex_ref as RR
from ..skel import regexgen as G

ASSUMPTIONS = [
    "construction: pattern strings up to the length bound; the symbolic family ranges over all code points, the "
    "vocabulary family over the regex metacharacter vocabulary with a fixed first character per harness",
    "matching under budgets: stack_limit, step_limit, poll_interval and the poll callback's answers are symbolic on "
    "one RegexVM; subjects up to length 5 over {a,b,c}; the catastrophic families are listed in the harness ids",
    "default budgets at subject lengths 10**2..10**4 are covered by the small-budget statement (work per attempt is "
    "bounded by step_limit, attempts by len(s)+1) plus concrete replays, not explored symbolically",
]

VOCAB = list("()[]{}|*+?^$.\\-,:=!<>") + list("a10uxcdbBwsk/") + ["\n", "é"]
FLAGS = ["", "g", "i", "m", "s", "y", "u", "gi", "z", "gg", "imsguy"]
FNS = ("microjs.regex.parser.RegexParser.parse", "microjs.regex.compiler.RegexCompiler.compile",
       "microjs.regex.regex.RegExp.__init__", "microjs.regex.vm.RegexVM._run", "microjs.regex.vm.RegexVM._tick",
       "microjs.vm.VM._run_opcode (error translation)")


def pick(i, grid):
    pre(0 <= i < len(grid))
    for k in range(len(grid)):
        if i == k:
            return grid[k]
    raise AssertionError


# ---- construction ----------------------------------------------------------------------------------
def ctor_symbolic(maxlen):
    def h(p):
        pre(len(p) <= maxlen)
        from microjs.regex import RegExp, RegExpError
        try:
            RegExp(p)
            cover("accepted")
        except RegExpError:
            cover("rejected")
        return True
    h.__annotations__ = {"p": str, "return": bool}
    return h


TOKENS = ["a", "1", "-", "^", "$", ".", "*", "+", "?", "|", "(", ")", "[", "]", "{", "}", "{2}", "{1,}", "{2,1}", ",", "\\", "\\d", "\\w", "\\S",
          "\\b", "\\B", "\\1", "\\2", "\\0", "\\9", "\\x41", "\\x4", "\\u0041", "\\u004", "\\u{41}", "\\u{110000}", "\\u{80000000}",
          "\\u{ffffffffff}", "\\cA", "\\c", "\\cß", "\\c1", "\\k<n>", "(?:", "(?=", "(?!", "(?<=", "(?<!", "(?<n>", "(?", "\\n", "\\/", "é", "ß", "\\-",
          "\\]", "\\^"]
CLASS_TOKENS = ["a", "z", "0", "-", "^", "]", "\\d", "\\w", "\\S", "\\b", "\\B", "\\x41", "\\u0041", "\\u{41}", "\\cA", "\\c", "\\1",
                "\\-", "\\]", "[", "\\", "é", ".", "\\n", "\\0"]


def ctor_tokens(k, first=None):
    """Token soup: k tokens of the regex vocabulary (multi-character escapes, group openers, quantifiers ...)."""
    def h(i1, i2, i3):
        idx = [i1, i2, i3]
        toks = [] if first is None else [first]
        for j in range(3):
            if j < k:
                toks.append(pick(idx[j], TOKENS))
            else:
                pre(idx[j] == 0)
        with NoTracing():
            return construct_everywhere("".join(toks))
    h.__annotations__ = {"i1": int, "i2": int, "i3": int, "return": bool}
    return h


def ctor_class(form):
    """Character classes: '[' t1 t2 t3 ']' and the range form '[' t1 '-' t2 ']' (optionally negated)."""
    def h(neg, i1, i2, i3):
        t1, t2 = pick(i1, CLASS_TOKENS), pick(i2, CLASS_TOKENS)
        if form == "range":
            pre(i3 == 0)
            body = t1 + "-" + t2
        else:
            body = t1 + t2 + pick(i3, CLASS_TOKENS)
        p = "[" + ("^" if neg else "") + body + "]"
        with NoTracing():
            return construct_everywhere(p)
    h.__annotations__ = {"neg": bool, "i1": int, "i2": int, "i3": int, "return": bool}
    return h


def construct_everywhere(p):
    """Success or a catchable SyntaxError through the constructor, the call form and string-pattern match/search."""
    from microjs import Context
    from microjs.errors import JSError
    for script in (SCRIPT, SCRIPT_CALL, "var o; try { 'ab'.match(P); 'ab'.search(P); o = 'ok'; } catch (e) { o = e.name; } o"):
        ctx = Context(time_limit=20)
        ctx.set("P", p)
        ctx.set("F", "")
        try:
            r = ctx.eval(script)
        except JSError as e:
            return "pattern %r: the error is not catchable by the script: %s" % (p, e)
        if r == "ok":
            cover("accepted")
        elif r == "SyntaxError":
            cover("rejected")
        else:
            return "pattern %r: a script sees %r (only success or SyntaxError are allowed)" % (p, r)
    try:
        Context(time_limit=20).eval("new RegExp(P)".replace("P", repr(p)) if False else "1")
    except JSError:
        pass
    return True


def ctor_wrapped(prefix, suffix, maxlen):
    """prefix + (every string up to maxlen over all code points) + suffix through RegExp()."""
    def h(x):
        pre(len(x) <= maxlen)
        from microjs.regex import RegExp, RegExpError
        try:
            RegExp(prefix + x + suffix)
            cover("accepted")
        except RegExpError:
            cover("rejected")
        return True
    h.__annotations__ = {"x": str, "return": bool}
    return h


SCRIPT = "var o; try { var r = new RegExp(P, F); r.test('ab\\n'); r.exec('a1'); 'x'.replace(r, 'y'); o = 'ok'; } catch (e) { o = e.name; } o"
SCRIPT_CALL = "var o; try { var r = RegExp(P); 'aab'.match(r); 'a b'.split(r); 'ab'.search(r); o = 'ok'; } catch (e) { o = e.name; } o"


def ctor_vocab(first, n_rest):
    def h(i1, i2, i3, f):
        idx = [i1, i2, i3]
        chars = [first]
        for j in range(3):
            if j < n_rest:
                chars.append(pick(idx[j], VOCAB))
            else:
                pre(idx[j] == 0)
        flags = pick(f, FLAGS)
        with NoTracing():
            from microjs import Context
            from microjs.errors import JSError
            p = "".join(chars)
            for script, fl in ((SCRIPT, flags), (SCRIPT_CALL, "")):
                ctx = Context(time_limit=20)
                ctx.set("P", p)
                ctx.set("F", fl)
                r = ctx.eval(script)
                if r == "ok":
                    cover("accepted")
                elif r == "SyntaxError":
                    cover("rejected")
                else:
                    return "new RegExp(%r, %r): a script sees %r (only success or SyntaxError are allowed)" % (p, fl, r)
            # uncaught: must reach Python as JSError
            ctx = Context(time_limit=20)
            ctx.set("P", p)
            try:
                ctx.eval("new RegExp(P).test('a')")
            except JSError:
                pass
            # regex literal with the same text (a '/' or line break inside ends the literal: any JSError is fine)
            try:
                Context(time_limit=20).eval("var r = /" + p + "/; r.test('a');")
            except JSError:
                pass
        return True
    h.__annotations__ = {"i1": int, "i2": int, "i3": int, "f": int, "return": bool}
    return h


# ---- matching under arbitrary budgets ------------------------------------------------------------------
A, B, C = G.A, G.B, G.C
CATASTROPHIC = {
    "nested-star": G.seq(G.q(G.grp(G.q(A, 0)), 0), B),
    "nested-plus": G.seq(G.q(G.grp(G.q(A, 1)), 1), B),
    "overlap-alt": G.seq(G.q(G.grp(G.alt(A, A)), 0), B),
    "overlap-alt2": G.seq(G.q(G.nc(G.alt(A, G.seq(A, B))), 0), C),
    "backref-loop": G.q(G.nc(G.seq(("backref", 1), G.grp(A))), 0),
    "backref-loop2": G.seq(G.grp(G.q(A, 0)), G.q(G.nc(("backref", 1)), 0), B),
    "lookahead-in-loop": G.seq(G.q(G.nc(G.seq(G.look(True, True, G.q(G.grp(G.q(A, 0)), 0)), A)), 0), B),
    "lookahead-catastrophic": G.seq(G.look(True, True, G.seq(G.q(G.grp(G.q(A, 0)), 0), B)), A),
    "lookbehind-star": G.seq(G.look(False, True, G.q(A, 0)), B),
    "lookbehind-in-loop": G.seq(G.q(G.nc(G.seq(A, G.look(False, True, G.q(G.grp(G.q(A, 0)), 0)))), 0), C),
    "empty-loop": G.q(G.nc(G.q(A, 2)), 0),
    "empty-alt-loop": G.seq(G.q(G.grp(G.alt(G.seq(), A)), 0), B),
    "neg-lookahead-loop": G.seq(G.q(G.nc(G.seq(G.look(True, False, B), G.DOT)), 0), B),
    "counted": G.seq(G.q(G.grp(G.q(A, (0, 2, True))), (2, None, True)), B),
    "lazy-nested": G.seq(G.q(G.grp(G.q(A, 3)), 3), B),
    "dot-star-twice": G.seq(G.q(G.DOT, 0), G.q(G.DOT, 0), C),
}
SUBJ = ["a", "b", "c"]


PVALS = [1, 2, 3, 5, 8]


def make_budget(name, which, maxlen):
    """One RegexVM with one budget symbolic (the other two out of reach): which in steps | stack | poll."""
    ast = CATASTROPHIC[name]
    pattern = RR.render(ast)

    def h(v, n, i0, i1, i2, i3, a0, a1, a2):
        pre(0 <= n <= maxlen)
        idx = [i0, i1, i2, i3]
        chars = []
        for j in range(4):
            if j < n:
                chars.append(pick(idx[j], SUBJ))
            else:
                pre(idx[j] == 0)
        L, S, P = 10 ** 6, 10 ** 6, 10 ** 6
        answers = [False, False, False]
        if which == "steps":
            pre(1 <= v <= 40 and not a0 and not a1 and not a2)
            S = v
        elif which == "stack":
            pre(0 <= v <= 10 and not a0 and not a1 and not a2)
            L = v
            S = 400
        else:
            P = pick(v, PVALS)
            S = 60
            answers = [a0, a1, a2]
        from microjs.regex.vm import RegexVM, RegexTimeoutError, RegexStackOverflow
        with NoTracing():
            from microjs.regex.parser import RegexParser
            from microjs.regex.compiler import RegexCompiler
            astp, ncap = RegexParser(pattern, "").parse()
            code = RegexCompiler("").compile(astp, ncap)
            s = "".join(chars)
        state = {"polls": 0, "said_stop": False, "max_stack": 0, "since_poll": 0, "max_gap": 0}

        def poll():
            k = state["polls"]
            state["polls"] = k + 1
            state["since_poll"] = 0
            ans = answers[k] if k < len(answers) else False
            if ans:
                state["said_stop"] = True
            return ans
        vm = RegexVM(code, ncap, "", poll, L, P, S)
        orig_tick = vm._tick

        def tick(stack):
            state["since_poll"] += 1
            if state["since_poll"] > state["max_gap"]:
                state["max_gap"] = state["since_poll"]
            if len(stack) > state["max_stack"]:
                state["max_stack"] = len(stack)
            orig_tick(stack)
        vm._tick = tick
        outcome = None
        try:
            r = vm.match(s, 0)
            outcome = "match" if r is not None else "none"
        except RegexTimeoutError:
            outcome = "timeout"
        except RegexStackOverflow:
            outcome = "stack"
        cover(outcome)
        if outcome == "timeout" and not state["said_stop"]:
            return "/%s/ on %r: RegexTimeoutError although the poll callback never asked to stop" % (pattern, s)
        if state["said_stop"] and outcome != "timeout":
            return "/%s/ on %r: the poll callback asked to stop, outcome %s" % (pattern, s, outcome)
        if vm._steps > S + 1:
            return "/%s/ on %r: %r steps with step_limit=%r" % (pattern, s, vm._steps, S)
        if state["max_stack"] > L + 1:
            return "/%s/ on %r: backtrack stack reached %r with stack_limit=%r" % (pattern, s, state["max_stack"], L)
        if state["max_gap"] > P:
            return "/%s/ on %r: %r steps without a poll (poll_interval=%r)" % (pattern, s, state["max_gap"], P)
        if which == "stack" and outcome == "stack" and state["max_stack"] <= L:
            return "/%s/ on %r: RegexStackOverflow with only %r entries (limit %r)" % (pattern, s, state["max_stack"], L)
        return True
    h.__annotations__ = {"v": int, "n": int, "i0": int, "i1": int, "i2": int, "i3": int,
                         "a0": bool, "a1": bool, "a2": bool, "return": bool}
    return h


# ---- script level: budget exhaustion is a defined result or a JSError ---------------------------------
# anchored, so that one attempt (not len(s)+1 of them) meets the default budgets
SCALE = [("^(a*)*b", 30), ("^(a|a)*b", 25), ("^(a|ab)*c", 40), ("^(?:\\1(a))*b", 60), ("^(?=(a*)*b)a", 30), ("^a*(?<=(a*)*)b", 24),
         ("^a*b", 10001), ("^a*a*a*a*c", 120), ("^(.*)*x", 28), ("^(a+)+$", 30), ("^\\b(\\w+\\s*)+$", 26), ("^(a{0,2}){2,}b", 40),
         ("(a*)*b", 12), ("a*a*c", 60)]
APIS = ["R.test(S)", "R.exec(S)", "S.match(R)", "S.search(R)", "S.replace(R, 'x')", "S.split(R)", "S.replaceAll(G, 'x')", "S.match(G)"]


def make_scale(api):
    def scale(i):
        pat, n = pick(i, SCALE)
        with NoTracing():
            from microjs import Context
            from microjs.errors import JSError
            ctx = Context(time_limit=60)
            ctx.set("P", pat)
            ctx.set("N", n)
            src = ("var R = new RegExp(P); var G = new RegExp(P, 'g'); var S = 'a'.repeat(N); var o; "
                   "try { o = ['value', String(%s)]; } catch (e) { o = ['caught', e.name]; } o" % api)
            try:
                r = ctx.eval(src)
            except JSError:
                cover("jserror")
                return True
            cover("result")
            if r[0] == "caught" and r[1] not in ("RangeError", "SyntaxError", "Error", "TypeError"):
                return "/%s/ %s on 'a'*%d: script caught %r" % (pat, api, n, r)
            if ctx.eval("/a+/.exec('caab')[0]") != "aa":
                return "context unusable afterwards"
        return True
    scale.__annotations__ = {"i": int, "return": bool}
    return scale


def harnesses():
    hs = []
    hs.append(Harness(id="C10.ctor.sym2", fn=ctor_symbolic(2), bounds=["pattern: every string of length <= 2 over all code points"],
                      per_path=30, budget=300, require=("accepted", "rejected"), group="construction", functions=FNS))
    hs.append(Harness(id="C10.ctor.sym3", fn=ctor_symbolic(3), bounds=["pattern: every string of length <= 3 over all code points"],
                      per_path=30, budget=1800, tier="thorough", must_exhaust=False, require=("accepted", "rejected"),
                      group="construction", functions=FNS))
    hs.append(Harness(id="C10.ctor.tokens2", fn=ctor_tokens(2), bounds=["pattern: 2 solver-chosen tokens of %d (escapes, group openers, "
                      "quantifiers ...), through eval: constructor, call form, string-pattern match/search" % len(TOKENS)],
                      per_path=120, budget=900, require=("accepted", "rejected"), group="token soup", functions=FNS))
    for i, first in enumerate(TOKENS):
        hs.append(Harness(id="C10.ctor.tokens3.%02d" % i, fn=ctor_tokens(2, first), bounds=["pattern: %r + 2 solver-chosen tokens" % first],
                          per_path=120, budget=1500, tier="thorough", group="token soup", functions=FNS))
    hs.append(Harness(id="C10.ctor.class-range", fn=ctor_class("range"), bounds=["pattern: '[' ['^'] t1 '-' t2 ']' with solver-chosen class tokens (%d)" % len(CLASS_TOKENS)],
                      per_path=120, budget=900, require=("accepted",), group="token soup", functions=FNS))
    hs.append(Harness(id="C10.ctor.class3", fn=ctor_class("three"), bounds=["pattern: '[' ['^'] t1 t2 t3 ']' with solver-chosen class tokens"],
                      per_path=120, budget=2400, tier="thorough", require=("accepted",), group="token soup", functions=FNS))
    for wid, (pre_, suf) in enumerate([  # noqa
            ("\\c", ""), ("\\", ""), ("[\\", "]"), ("(?", "a)"), ("\\u{", "}"), ("a{", "}"), ("[a-", "]"), ("\\x", ""), ("(?<", ">a)")]):
        hs.append(Harness(id="C10.ctor.wrapped.%d" % wid, fn=ctor_wrapped(pre_, suf, 1),
                          bounds=["pattern: %r + every string of length <= 1 over all code points + %r" % (pre_, suf)],
                          per_path=60, budget=300, group="construction", functions=FNS, must_exhaust=(pre_ != "\\u{")))
        hs.append(Harness(id="C10.ctor.wrapped2.%d" % wid, fn=ctor_wrapped(pre_, suf, 2),
                          bounds=["pattern: %r + every string of length <= 2 over all code points + %r (bug hunting: the "
                                  "parser's int()/isdigit() calls realise)" % (pre_, suf)],
                          per_path=60, budget=600, tier="thorough", must_exhaust=False, group="construction", functions=FNS))
    for first in VOCAB:
        name = "x%02x" % ord(first)
        hs.append(Harness(id="C10.ctor.vocab." + name, fn=ctor_vocab(first, 1),
                          bounds=["pattern: %r + 1 solver-chosen vocabulary character (%d); flags: index into %r; through "
                                  "Context.eval (constructor, call form, literal)" % (first, len(VOCAB), FLAGS)],
                          per_path=60, budget=300, require=("accepted",) if first in "a1." else (), group="construction via eval",
                          functions=FNS))
        hs.append(Harness(id="C10.ctor.vocab3." + name, fn=ctor_vocab(first, 2),
                          bounds=["pattern: %r + 2 solver-chosen vocabulary characters; flags by index" % first],
                          per_path=60, budget=1500, tier="thorough", group="construction via eval", functions=FNS))
    for name in CATASTROPHIC:
        for which, dom in (("steps", "step_limit: any integer in [1,40]"), ("stack", "stack_limit: any integer in [0,10]"),
                           ("poll", "poll_interval: index into %r, poll answers: 3 symbolic booleans" % (PVALS,))):
            hs.append(Harness(id="C10.budget.%s.%s" % (name, which), fn=make_budget(name, which, 3),
                              bounds=["pattern /%s/" % RR.render(CATASTROPHIC[name]), dom, "subject: length <= 3 over {a,b,c}"],
                              per_path=60, budget=300, group="budgets", functions=FNS,
                              stubs=("poll callback answering symbolic booleans",)))
            hs.append(Harness(id="C10.budget4.%s.%s" % (name, which), fn=make_budget(name, which, 4),
                              bounds=["pattern /%s/" % RR.render(CATASTROPHIC[name]), dom, "subject: length <= 4 over {a,b,c}"],
                              per_path=60, budget=1200, tier="thorough", group="budgets", functions=FNS,
                              stubs=("poll callback answering symbolic booleans",)))
    for k, api in enumerate(APIS):
        hs.append(Harness(id="C10.scale.%d" % k, fn=make_scale(api),
                          bounds=["API %s; solver-chosen index into %d catastrophic (pattern, length) pairs, default budgets, "
                                  "through Context.eval" % (api, len(SCALE))],
                          per_path=300, budget=900, require=("result",), group="default budgets", functions=FNS))
    return hs
