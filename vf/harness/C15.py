"""C15 - evaluation is deterministic and independent of host hash randomisation (DESIGN 4, C15)."""
from ..harness_api import Harness
from ..compat import pre, cover, NoTracing

ASSUMPTIONS = [
    "the hash seed reaches the engine only through the iteration order of the sets built by microjs.compiler (local_vars_set, "
    "captured, required_free and the helper sets they are computed from); inside the checking process the name `set` in that "
    "module is bound to a subclass whose iteration order is a permutation chosen by the solver (Lehmer digits), one permutation "
    "per distinct set content per compilation; dict iteration order does not depend on the seed in CPython >= 3.7",
    "programs: the closure-heavy family below (<= 4 functions, sets of <= 4 names); when a program needs more digits than the "
    "harness supplies, the remaining sets keep the identity order and the harness reports the cut (label digits-exhausted)",
    "reference outcome: the same program compiled with the identity (sorted) order; in turn compared with the value the program "
    "is constructed to produce",
    "Math.random and Date.now are excluded by the property",
]
FNS = ("microjs.compiler.Compiler._compile_function", "microjs.compiler.Compiler._compile_arrow_function",
       "microjs.compiler.Compiler._find_captured_vars", "microjs.compiler.Compiler._find_required_free_vars",
       "microjs.vm.VM._execute_opcode (MAKE_CLOSURE)", "microjs.context.Context.eval")

PROGRAMS = [
    ("counter", "function mk(a, b) { var c = a + b, d = 1; function inc() { c += d; return c; } function get() { return c * 10 + a; } "
                "return [inc, get]; } var p = mk(1, 2), q = mk(5, 5); p[0](); p[0](); q[0](); [p[1](), q[1]()].join();", "51,115"),
    ("pass-through", "function outer(x, y) { var z = x * 2; function mid(m) { var w = m + 1; function inner(k) { return x + y + z + w + k; } "
                     "return inner; } return mid(y)(100); } outer(3, 4);", 3 + 4 + 6 + 5 + 100),
    ("named-fe", "var f = function fact(n, acc) { var one = 1, r; if (n <= one) { return acc; } r = fact(n - one, acc * n); return r; }; "
                 "var g = function fib(n) { var a = 1, b = 2; return n < b ? n : fib(n - a) + fib(n - b); }; f(5, 1) + g(7);", 120 + 13),
    ("arguments", "function sum(a, b) { var t = 0, i, n = arguments.length; for (i = 0; i < n; i++) { t += arguments[i]; } "
                  "function again() { return t + a + b; } return again(); } sum(1, 2, 3, 4);", 10 + 3),
    ("arrows", "function mk(a, b, c) { var s = a; var add = x => { s += x + b; return s; }; var mul = y => s * y * c; "
               "return [add, mul]; } var fs = mk(1, 2, 3); fs[0](4); fs[0](1); fs[1](2);", ((1 + 6) + 3) * 2 * 3),
    ("shadow", "var g1 = 7, g2 = 9; function f(g1) { var g2 = g1 + 1, h = 3; function k(h) { var g1 = h * 2; return g1 + g2; } "
               "return k(h + 1) + g1 + g2; } f(10) + g1 + g2;", (8 + 11) + 10 + 11 + 7 + 9),
    ("loop-closures", "function mk() { var fs = [], i, j = 0, acc = 0; for (i = 0; i < 3; i++) { (function (n) { fs.push(function () { "
                      "acc += n + j; return acc; }); })(i); j += 10; } return fs; } var fs = mk(); fs[0]() + fs[1]() + fs[2]();", 30 + 61 + 93),
    ("try-catch", "function f(a, b) { var r = 0, e1; try { (function () { r = a; throw b; })(); } catch (ex) { e1 = ex; r += e1; } "
                  "finally { r = r * 2; } return (function () { return r + a + b + e1; })(); } f(3, 4);", (3 + 4) * 2 + 3 + 4 + 4),
    ("methods", "function Mk(x, y) { var self = this, hidden = x * y; this.x = x; this.get = function () { return hidden + self.x + y; }; "
                "this.set = function (v) { hidden = v; return self; }; } var o = new Mk(2, 3); o.set(10).get() + new Mk(1, 1).get();", 15 + 3),
    ("many-locals", "function f(p) { var a = 1, b = 2, c = 3, d = 4; function g() { return a + c; } function h() { return b + d + p; } "
                    "a = 10; d = 40; return g() * 100 + h(); } f(5);", 13 * 100 + 47),
    ("three-deep", "function a1(x) { var y = x + 1; return function a2(z) { var w = z + y; return function a3(q) { var v = q + w + x; "
                   "return function a4() { return v + y + z; }; }; }; } a1(1)(2)(3)();", (3 + 4 + 1) + 2 + 2),
    ("surplus-args", "function f(a) { var x, y, z, w; var before = [typeof x, typeof y, typeof z, typeof w].join(); x = a; y = 2; "
                     "function g() { return x + y; } return before + '|' + g(); } "
                     "var r = [f(1, 'p', 'q', 'r', 's'), [7].map(function (v) { var m, n, o; var t = [typeof m, typeof n, typeof o].join(); m = v; "
                     "return t + m; })[0], (function named(k) { var u, v2; return typeof u + typeof v2 + typeof named + k; })(1, 2, 3, 4)].join(';'); r;",
     "undefined,undefined,undefined,undefined|3;undefined,undefined,undefined7;undefinedundefinedfunction1"),
    ("recursion-with-closure", "function walk(n, visit) { var seen = 0, k; function step(m) { if (m === 0) { return; } seen += visit(m); "
                               "step(m - 1); } step(n); k = seen; return k; } var mult = 3; walk(4, function (v) { return v * mult; });", 30),
]


class Digits:
    """Supply of Lehmer digits for one path (concrete per path: each digit is solver-picked)."""

    def __init__(self, digits):
        self.digits = list(digits)
        self.used = 0
        self.exhausted = False
        self.noncanonical = False
        self.memo = {}

    def permutation(self, items):
        key = tuple(items)
        if key in self.memo:
            return self.memo[key]
        out = []
        pool = list(items)
        while len(pool) > 1:
            if self.used < len(self.digits):
                d = self.digits[self.used]
                if d >= len(pool):
                    self.noncanonical = True
                    d = d % len(pool)
                self.used += 1
            else:
                self.exhausted = True
                d = 0
            out.append(pool.pop(d))
        out.extend(pool)
        self.memo[key] = out
        return out


_CURRENT = [None]


class PermSet(set):
    """A set whose iteration order is the solver-chosen permutation of its sorted content."""

    def __iter__(self):
        items = sorted(set.__iter__(self))
        src = _CURRENT[0]
        if src is None or len(items) < 2:
            return iter(items)
        return iter(src.permutation(items))


def compile_with_order(src, digits):
    """Compile `src` with the set iteration orders given by the digits (None: sorted order)."""
    import microjs.compiler as C
    from microjs.parser import Parser
    saved = C.__dict__.get("set", None)
    C.set = PermSet
    supply = Digits(digits) if digits is not None else None
    _CURRENT[0] = supply
    try:
        compiled = C.Compiler().compile(Parser(src).parse())
    finally:
        _CURRENT[0] = None
        if saved is None:
            del C.set
        else:
            C.set = saved
    return compiled, supply


def run(compiled):
    from microjs import Context
    from microjs.vm import VM
    from microjs.errors import JSError
    ctx = Context()
    vm = VM(memory_limit=ctx.memory_limit, time_limit=ctx.time_limit)
    vm.globals = ctx._globals
    ctx._current_vm = vm
    try:
        return ("value", ctx._to_python(vm.run(compiled)))
    except JSError as e:
        return ("error", type(e).__name__, str(e))
    finally:
        ctx._current_vm = None


def pick(i, grid):
    pre(0 <= i < len(grid))
    for k in range(len(grid)):
        if i == k:
            return grid[k]
    raise AssertionError


NDIGITS = 8


def make_order(src, want, ndigits):
    def order_case(d0, d1, d2, d3, d4, d5, d6, d7):
        ds = [pick(d, [0, 1, 2, 3]) for d in (d0, d1, d2, d3, d4, d5, d6, d7)[:ndigits]]
        for d in (d0, d1, d2, d3, d4, d5, d6, d7)[ndigits:]:
            pre(d == 0)
        with NoTracing():
            base_c, _ = compile_with_order(src, None)
            base = run(base_c)
            if base != ("value", want):
                return "under the sorted order the program gives %r, it is built to give %r" % (base, want)
            compiled, supply = compile_with_order(src, ds)
            # canonical digit vectors only: a digit beyond the pool size or beyond the digits used repeats another vector
            if supply.noncanonical or any(d != 0 for d in ds[supply.used:]):
                return True
            got = run(compiled)
            cover("judged")
            cover("digits-exhausted", supply.exhausted)
            cover("order-differs", compiled_locals(compiled) != compiled_locals(base_c))
            if got != base:
                return "with set iteration order %r the program gives %r instead of %r" % (ds[:supply.used], got, base)
        return True
    order_case.__annotations__ = {"d%d" % i: int for i in range(8)}
    order_case.__annotations__["return"] = bool
    return order_case


def compiled_locals(f, depth=0):
    out = [list(f.locals), list(f.free_vars), list(f.cell_vars)]
    for c in f.constants:
        if hasattr(c, "bytecode") and depth < 6:
            out.append(compiled_locals(c, depth + 1))
    return out


def make_batch():
    """A batch of programs evaluated in one process in a solver-chosen order: each result equals its solo result."""
    idx = [0, 2, 4, 5, 8]

    def batch_case(d0, d1, d2, d3):
        ds = [pick(d0, list(range(5))), pick(d1, list(range(4))), pick(d2, list(range(3))), pick(d3, list(range(2)))]
        with NoTracing():
            pool = list(idx)
            order = []
            for d in ds:
                order.append(pool.pop(d))
            order.extend(pool)
            from microjs import Context
            shared = Context()
            for k in order:
                name, src, want = PROGRAMS[k]
                r1 = Context().eval(src)
                if r1 != want:
                    return "%s gives %r after %r were evaluated in the same process (expected %r)" % (name, r1, order, want)
                # and on a context that has already evaluated the earlier programs of the batch
                r2 = shared.eval(src)
                if r2 != want:
                    return "%s gives %r on a context that already ran %r" % (name, r2, order)
            cover("judged")
        return True
    batch_case.__annotations__ = {"d0": int, "d1": int, "d2": int, "d3": int, "return": bool}
    return batch_case


def make_clock(src, want):
    """The wall clock is a solver variable (arbitrary non-decreasing readings, no time limit): same result."""
    def clock_case(t0, t1, t2):
        pre(0 <= t0 and 0 <= t1 and 0 <= t2)
        from ..stubs import FakeTime
        import microjs.vm as _vm
        import microjs.context as _ctx
        from ..jsrun import compile_js, new_context, run_compiled

        class Loop(FakeTime):
            def monotonic(self):
                v = self.readings[min(self.n, len(self.readings) - 1)]
                self.n += 1
                return v
        clock = Loop([t0, t0 + t1, t0 + t1 + t2])
        saved = (_vm.time, _ctx.time)
        _vm.time = clock
        _ctx.time = clock
        try:
            ctx = new_context()
            r = ctx._to_python(run_compiled(ctx, compile_js(src), max_steps=200000))
        finally:
            _vm.time, _ctx.time = saved
        cover("judged")
        if r != want:
            return "with clock readings the program gives a different result"
        return True
    clock_case.__annotations__ = {"t0": float, "t1": float, "t2": float, "return": bool}
    return clock_case


REGEX_PROGRAM = ("function mk(n) { var c = n; return function (s) { c++; return c + ':' + s.replace(/(a+)+b/g, 'X').length + ':' + "
                 "/^(\\w+\\s?)*$/.test(s); }; } var f = mk(0); f('aaaaaaaaaab aaaab aaaaaaaaaaaa');")


def make_earlier_context(first_limited):
    """The same source on two fresh contexts, the second one created and run an arbitrary time after the first: the wall
    clock is a stub that stands still during an evaluation and jumps by a symbolic amount between them."""
    def earlier_case(d1, d2):
        pre(0 <= d1 and 0 <= d2)
        import microjs.vm as _vm
        import microjs.context as _ctx
        import microjs.values as _values
        from ..jsrun import new_context
        from microjs.errors import JSError

        class Clock:
            t = 0.0

            def monotonic(self):
                return self.t

            def time(self):
                return self.t
        clock = Clock()
        saved = (_vm.time, _ctx.time, getattr(_values, "time", None))
        _vm.time = clock
        _ctx.time = clock
        if saved[2] is not None:
            _values.time = clock
        try:
            with NoTracing():
                c0 = new_context(time_limit=1.0) if first_limited else new_context()
                want = c0.eval(REGEX_PROGRAM)
            clock.t = clock.t + d1
            with NoTracing():
                c1 = new_context(time_limit=1.0)
            clock.t = clock.t + d2
            try:
                got = c1.eval(REGEX_PROGRAM)
            except JSError as e:
                return "a fresh context evaluated later raises " + type(e).__name__
            cover("judged")
            if got != want:
                return "a fresh context evaluated later gives a different result"
            c2 = new_context()
            if c2.eval(REGEX_PROGRAM) != want:
                return "an unlimited context evaluated afterwards gives a different result"
        finally:
            _vm.time, _ctx.time = saved[0], saved[1]
            if saved[2] is not None:
                _values.time = saved[2]
        return True
    earlier_case.__annotations__ = {"d1": float, "d2": float, "return": bool}
    return earlier_case


def harnesses():
    hs = []
    for name, src, want in PROGRAMS:
        hs.append(Harness(id="C15.order.%s" % name, fn=make_order(src, want, 6), group="order", functions=FNS, per_path=20, budget=600,
                          require=("judged", "order-differs"), stubs=("microjs.compiler.set -> PermSet (solver-chosen iteration order)",),
                          bounds=["program %s; 6 Lehmer digits (each 0..3) choose the iteration order of the first sets the compiler "
                                  "iterates (one permutation per distinct content); later sets keep the sorted order" % name]))
        hs.append(Harness(id="C15.order8.%s" % name, fn=make_order(src, want, 8), group="order", functions=FNS, per_path=20, budget=6000,
                          tier="thorough", require=("judged", "order-differs"),
                          stubs=("microjs.compiler.set -> PermSet (solver-chosen iteration order)",),
                          bounds=["program %s; 8 Lehmer digits" % name]))
    hs.append(Harness(id="C15.batch", fn=make_batch(), group="batch", functions=FNS, per_path=30, budget=600, require=("judged",),
                      bounds=["5 programs evaluated in one process in every order (120), each on a fresh context and on one shared context"]))
    for lim in (True, False):
        hs.append(Harness(id="C15.earlier-context.%s" % ("limited" if lim else "unlimited"), fn=make_earlier_context(lim), group="clock",
                          functions=FNS + ("microjs.values.JSRegExp", "microjs.regex"), per_path=120, budget=600, require=("judged",),
                          stubs=("clock: stands still during an evaluation, jumps by symbolic amounts between evaluations",),
                          bounds=["a closure + backtracking-regex program on a fresh time-limited context, created and run arbitrary "
                                  "(symbolic, >= 0) times after the same source ran on an earlier %s context" % ("time-limited" if lim else "unlimited")]))
    for name, src, want in PROGRAMS[:4]:
        hs.append(Harness(id="C15.clock.%s" % name, fn=make_clock(src, want), group="clock", functions=FNS, per_path=60, budget=300,
                          require=("judged",), stubs=("clock: arbitrary non-decreasing symbolic readings",),
                          bounds=["program %s, no time limit, the clock returns arbitrary non-decreasing doubles" % name]))
    return hs
