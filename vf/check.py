"""Driver: python3-vt -m vf.check <ID> --tier quick|thorough [--only <glob>] [--jobs N]

Exit codes: 0 nothing unlisted failed on what was explored (KNOWN-FINDING / INCONCLUSIVE lines
allowed); 1 with `VIOLATION property=<id> replay=<path>` for a reproduced, unlisted violation;
3 harness error (engine died, vacuity guard failed, counterexample or path witness did not
reproduce concretely).
"""
import argparse
import fnmatch
import hashlib
import json
import os
import shutil
import subprocess
import sys
import time
from concurrent.futures import ThreadPoolExecutor

from .harness_api import load
from .codec import dec, show
from . import findings as kf
from . import evidence

ROOT = os.path.dirname(os.path.dirname(os.path.abspath(__file__)))
OUT = os.path.join(ROOT, "out")
PY_SYM = sys.executable                      # python3-vt (CrossHair + z3)
PY_REAL = "/venv/bin/python"                 # the build users run
MAX_REPORT = 3                               # counterexamples reported per refuted harness


def env_for(extra=None):
    e = dict(os.environ)
    e["PYTHONPATH"] = "/repo/src" + os.pathsep + ROOT
    e["PYTHONHASHSEED"] = "0"
    e["PYTHONDONTWRITEBYTECODE"] = "1"
    e["MICROJS_VERIF"] = "1"
    if extra:
        e.update(extra)
    return e


def run_batch(prop, tier, regions, ids, timeout, wdir):
    cmd = [PY_SYM, "-m", "vf.worker", prop, tier, ",".join(regions) or "-"] + ids
    t0 = time.time()
    results = {}
    try:
        p = subprocess.run(cmd, cwd=ROOT, env=env_for({"VF_WITNESS_DIR": wdir}), capture_output=True,
                           text=True, timeout=timeout)
        out, err = p.stdout, p.stderr
    except subprocess.TimeoutExpired as e:
        out = (e.stdout or b"").decode() if isinstance(e.stdout, bytes) else (e.stdout or "")
        err = "worker wall timeout after %ss" % timeout
    for line in out.splitlines():
        if line.startswith("@@RESULT "):
            r = json.loads(line[9:])
            results[r["id"]] = r
    for hid in ids:
        if hid not in results:
            results[hid] = {"id": hid, "status": "ERROR", "error": "no result from worker",
                            "trace": (err or "")[-1500:], "wall_s": round(time.time() - t0, 1)}
    return results


def replay_file(prop, h, rec, kind):
    d = os.path.join(OUT, "replay", prop)
    os.makedirs(d, exist_ok=True)
    body = {"property": prop, "harness": h.id, "kind": kind, "args": rec["args"],
            "args_shown": show(dec(rec["args"])), "symbolic_verdict": rec.get("verdict"),
            "detail": rec.get("detail", "")}
    if h.replay:
        try:
            body["public_api"] = h.replay(*dec(rec["args"]))
        except Exception as e:  # noqa: BLE001
            body["public_api_error"] = repr(e)
    key = hashlib.sha1(json.dumps([h.id, rec["args"]], sort_keys=True).encode()).hexdigest()[:10]
    path = os.path.join(d, key + ".json")
    with open(path, "w") as f:
        json.dump(body, f, indent=1)
    return path


def reproduces(path, timeout=120):
    """Re-run a replay file on the real build (3.12, no CrossHair): True if it still fails."""
    try:
        p = subprocess.run([PY_REAL, "-m", "vf.replay", path, "--quiet"], cwd=ROOT, env=env_for(),
                           capture_output=True, text=True, timeout=timeout)
    except subprocess.TimeoutExpired:
        return True, "timeout (non-termination reproduced, %ss)" % timeout
    return p.returncode == 1, (p.stdout + p.stderr).strip()[-400:]


def main(argv=None):
    ap = argparse.ArgumentParser()
    ap.add_argument("prop")
    ap.add_argument("--tier", default=os.environ.get("VERIF_TIER", "quick"))
    ap.add_argument("--only", default=None)
    ap.add_argument("--jobs", type=int, default=int(os.environ.get("VF_JOBS", "16")))
    ap.add_argument("--no-evidence", action="store_true")
    a = ap.parse_args(argv)
    prop, tier = a.prop, a.tier
    seed = int(os.environ.get("VERIF_SEED", "0") or 0)
    t0 = time.time()
    sys.path.insert(0, "/repo/src")
    hs, mod = load(prop)
    hs = [h for h in hs if tier == "thorough" or h.tier == "quick"]
    if os.environ.get("VF_THOROUGH_ONLY") and tier == "thorough":
        hs = [h for h in hs if h.tier == "thorough"]      # smoke run of the harnesses the quick tier never executes
    if a.only:
        hs = [h for h in hs if fnmatch.fnmatch(h.id, a.only)]
    if not hs:
        print("ERROR no harness selected")
        return 3
    by_id = {h.id: h for h in hs}

    # ---- known findings: replay each listed witness; only still-failing ones exclude their region
    errors = []
    known_lines, active, kf_seen = kf.triage(prop, errors)
    for line in known_lines:
        print(line)

    # ---- explore
    wdir = os.path.join(OUT, "witness", prop)
    shutil.rmtree(wdir, ignore_errors=True)
    os.makedirs(wdir, exist_ok=True)
    order = sorted(hs, key=lambda h: -h.budget_for(tier))
    nb = max(1, min(len(order), a.jobs * 4))
    batches = [[] for _ in range(nb)]
    for i, h in enumerate(order):
        batches[i % nb].append(h)
    batches = [b for b in batches if b]
    results = {}
    with ThreadPoolExecutor(max_workers=a.jobs) as ex:
        futs = []
        for b in batches:
            to = sum(h.budget_for(tier) * 2.5 + 3 * h.per_path + 40 for h in b) + 60
            futs.append(ex.submit(run_batch, prop, tier, active, [h.id for h in b], to, wdir))
        for f in futs:
            results.update(f.result())

    # ---- 3.12 re-run of every path witness on the real build
    rr = subprocess.run([PY_REAL, "-m", "vf.rerun", prop, wdir, str(a.jobs)], cwd=ROOT, env=env_for(),
                        capture_output=True, text=True)
    rerun = {"validated": 0, "mismatch": 0, "samples": []}
    try:
        rerun = json.loads(rr.stdout.strip().splitlines()[-1])
    except Exception:  # noqa: BLE001
        errors.append("3.12 witness re-run failed: " + (rr.stderr or rr.stdout)[-600:])

    os.makedirs(os.path.join(OUT, "results"), exist_ok=True)
    with open(os.path.join(OUT, "results", "%s.%s.json" % (prop, tier)), "w") as f:
        json.dump(results, f)

    # ---- judge
    violations, inconclusive = [], []
    to_replay = []
    for hid, r in sorted(results.items()):
        h = by_id[hid]
        st = r.get("status")
        if st == "ERROR":
            errors.append("%s: %s\n%s" % (hid, r.get("error"), r.get("trace", "")))
            continue
        if r.get("n_mismatch"):
            errors.append("%s: %d path witnesses disagree with the concrete re-run, e.g. %s"
                          % (hid, r["n_mismatch"], json.dumps(r["mismatches"][0])[:400]))
        if h.expect_refuted:
            if st != "REFUTED":
                errors.append("%s: the assert-False twin was not refuted (%s)" % (hid, st))
            continue
        if st == "REFUTED":
            for rec in r["fails"][:MAX_REPORT]:
                to_replay.append((hid, replay_file(prop, h, rec, "counterexample"), rec, 120))
        elif st == "HANG":
            rec = {"args": r.get("hang_args"), "verdict": "hang", "detail": "path did not terminate"}
            to_replay.append((hid, replay_file(prop, h, rec, "hang"), rec, 60))
        elif st == "NOT_EXHAUSTED":
            if h.must_exhaust:
                inconclusive.append("%s: not exhausted (paths=%d abandoned=%d %s budget=%ss)" % (
                    hid, r["paths"], r["abandoned"], r.get("abandoned_reasons"), h.budget_for(tier)))
        if st in ("CONFIRMED", "NOT_EXHAUSTED", "REFUTED"):
            missing = [l for l in h.require if l not in r.get("labels", [])]
            if missing and st != "REFUTED" and (st == "CONFIRMED" or h.must_exhaust):
                errors.append("%s: vacuity guard: labels never reached: %s" % (hid, missing))
            if st == "CONFIRMED" and r["paths"] == 0:
                errors.append("%s: vacuity guard: no path satisfied the preconditions" % hid)
    # every counterexample is replayed on the real build before it is reported
    with ThreadPoolExecutor(max_workers=a.jobs) as ex:
        outcomes = list(ex.map(lambda t: reproduces(t[1], timeout=t[3]), to_replay))
    for (hid, path, rec, _to), (ok, msg) in zip(to_replay, outcomes):
        if ok:
            violations.append((hid, path, rec))
        elif rec["verdict"] == "hang":
            inconclusive.append("%s: a path hung under symbolic execution; its realised prefix "
                                "terminates concretely" % hid)
        else:
            errors.append("%s: counterexample %s did not reproduce on the real build: %s"
                          % (hid, show(dec(rec["args"])), msg))
    if rerun.get("mismatch"):
        errors.append("3.12 re-run: %d path witnesses disagree, e.g. %s"
                      % (rerun["mismatch"], json.dumps(rerun.get("samples", [])[:2])[:600]))

    wall = time.time() - t0
    if not a.no_evidence and not a.only:
        evidence.write(prop, tier, seed, mod, hs, results, rerun, violations, inconclusive, errors,
                       kf_seen, active, wall)
    for m in inconclusive:
        print("INCONCLUSIVE property=%s %s" % (prop, m))
    for hid, path, rec in violations:
        print("VIOLATION property=%s replay=%s harness=%s inputs=%s %s"
              % (prop, path, hid, show(dec(rec["args"])), (rec.get("detail") or "")[:200]))
    for e in errors:
        print("HARNESS-ERROR property=%s %s" % (prop, e))
    st = {}
    for r in results.values():
        st[r.get("status")] = st.get(r.get("status"), 0) + 1
    print("%s property=%s tier=%s harnesses=%d %s paths=%d wall=%.0fs" % (
        "VIOLATED" if violations else ("ERROR" if errors else "OK"), prop, tier, len(results),
        " ".join("%s=%d" % (k.lower(), v) for k, v in sorted(st.items())),
        sum(r.get("paths", 0) for r in results.values()), wall))
    if violations:
        return 1
    if errors:
        return 3
    return 0


if __name__ == "__main__":
    sys.exit(main())
