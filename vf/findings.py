"""known_findings.json handling (DESIGN 2.7).  The file is never written at run time.

An open finding names one harness and one concrete argument vector (the witness).  On every
run the witness is re-run on the real build: still failing => `KNOWN-FINDING:` line and the
finding's region (a predicate inside the harness, `known(<id>, cond)`) is excluded from the
exploration; no longer failing => no line, no exclusion, so anything still wrong inside the
region is reported as an ordinary VIOLATION.  `fixed` entries exclude nothing and print nothing.
"""
import json
import os
import signal
import subprocess
import sys

ROOT = os.path.dirname(os.path.dirname(os.path.abspath(__file__)))
FILE = os.path.join(ROOT, "known_findings.json")


def load_file():
    if not os.path.exists(FILE):
        return {"findings": [], "fixed": []}
    with open(FILE) as f:
        return json.load(f)


def triage(prop, errors):
    data = load_file()
    mine = [f for f in data.get("findings", []) if f["property"] == prop and f.get("status", "open") == "open"]
    if not mine:
        return [], [], []
    env = dict(os.environ)
    env["PYTHONPATH"] = "/repo/src" + os.pathsep + ROOT
    env["PYTHONHASHSEED"] = "0"
    p = subprocess.run(["/venv/bin/python", "-m", "vf.findings", prop], cwd=ROOT, env=env,
                       capture_output=True, text=True)
    try:
        status = json.loads(p.stdout.strip().splitlines()[-1])
    except Exception:  # noqa: BLE001
        errors.append("known-finding witness replay failed: " + (p.stderr or p.stdout)[-800:])
        return [], [], []
    lines, active, seen = [], [], []
    for f in mine:
        st = status.get(f["id"], {})
        if st.get("verdict") in ("fail", "exc", "hang"):
            lines.append("KNOWN-FINDING: property=%s %s %s [witness %s -> %s]" % (
                prop, f["id"], f["what"], f.get("shown", ""), (st.get("detail") or "")[:120]))
            active.append(f["id"])
            seen.append(f["id"])
        elif st.get("verdict") == "ok":
            pass  # repaired or moved: the region is not excluded any more
        else:
            errors.append("known finding %s: witness could not be replayed: %s" % (f["id"], st))
    return lines, active, seen


def _alarm(signum, frame):
    from .compat import HangAbort
    raise HangAbort()


def main(prop):
    """(3.12, no CrossHair) re-run the witness of every open finding of `prop`."""
    sys.path.insert(0, "/repo/src")
    from .harness_api import load
    from .worker import concrete_run
    from .codec import dec
    from .compat import HangAbort
    hs, _ = load(prop)
    by_id = {h.id: h for h in hs}
    out = {}
    signal.signal(signal.SIGALRM, _alarm)
    for f in load_file().get("findings", []):
        if f["property"] != prop or f.get("status", "open") != "open":
            continue
        h = by_id.get(f["harness"])
        if h is None:
            out[f["id"]] = {"verdict": "missing-harness"}
            continue
        signal.alarm(30)
        try:
            v, d = concrete_run(h.fn, dec(f["args"]))
        except HangAbort:
            v, d = "hang", "no termination within 30 s"
        finally:
            signal.alarm(0)
        out[f["id"]] = {"verdict": v, "detail": d}
    print(json.dumps(out))


if __name__ == "__main__":
    main(sys.argv[1])
