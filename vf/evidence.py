"""Evidence writer: /verif/evidence/<ID>.json (schema /root/.vp/EVIDENCE.schema.json)."""
import json
import os

from .codec import dec, show

ROOT = os.path.dirname(os.path.dirname(os.path.abspath(__file__)))


def write(prop, tier, seed, mod, hs, results, rerun, violations, inconclusive, errors,
          kf_seen, kf_active, wall):
    by_id = {h.id: h for h in hs}
    st = {"confirmed": 0, "refuted": 0, "not_exhausted": 0, "hang": 0, "error": 0}
    paths = decisions = validated = checks = 0
    solver_s = cpu_s = 0.0
    distinct = nontrivial = ignored = cut = abandoned = 0
    excluded = {}
    samples = []
    groups = {}
    per_h = []
    functions, stubs, bounds = [], [], []
    for hid, r in sorted(results.items()):
        h = by_id[hid]
        s = (r.get("status") or "ERROR").lower()
        st[s] = st.get(s, 0) + 1
        paths += r.get("paths", 0)
        decisions += r.get("decisions", 0)
        validated += r.get("validated", 0)
        checks += r.get("solver_checks", 0)
        solver_s += r.get("solver_s", 0.0)
        cpu_s += r.get("cpu_s", 0.0)
        distinct += r.get("distinct_witnesses", 0)
        nontrivial += r.get("nontrivial", 0)
        ignored += r.get("ignored", 0)
        cut += r.get("cut", 0)
        abandoned += r.get("abandoned", 0)
        for k, v in (r.get("excluded_known") or {}).items():
            excluded[k] = excluded.get(k, 0) + v
        g = groups.setdefault(h.group or hid.split(".")[1], {"harnesses": 0, "confirmed": 0, "paths": 0})
        g["harnesses"] += 1
        g["confirmed"] += 1 if s == "confirmed" else 0
        g["paths"] += r.get("paths", 0)
        if len(per_h) < 400:
            per_h.append({"id": hid, "status": r.get("status"), "paths": r.get("paths", 0),
                          "cpu_s": r.get("cpu_s"), "solver_s": r.get("solver_s"),
                          "must_exhaust": h.must_exhaust})
        for f in h.functions:
            if f not in functions:
                functions.append(f)
        for f in h.stubs:
            if f not in stubs:
                stubs.append(f)
        for b in h.bounds:
            if b not in bounds and len(bounds) < 60:
                bounds.append(b)
        if len(samples) < 12 and r.get("recs"):
            rec = r["recs"][min(len(r["recs"]) - 1, 1)]
            samples.append({"harness": hid, "witness": show(dec(rec["args"])),
                            "verdict": rec["verdict"], "labels": rec.get("labels", []),
                            "solver_decisions_on_path": rec.get("decisions")})
    n = len(results)
    exhaustive = n > 0 and st["confirmed"] == sum(1 for h in hs if not h.expect_refuted) \
        and not inconclusive and not errors
    if not samples:
        samples = [{"note": "no path completed"}]
    ev = {
        "property_id": prop, "tier": tier, "seed": seed, "level": "model_checking",
        "wall_s": round(wall, 1), "violations": len(violations),
        "coverage": {
            "states": max(paths, 1) if paths else 0,
            "transitions": decisions,
            "traces_validated_against_impl": int(rerun.get("validated", 0)),
            "evaluations": paths,
            "distinct_nontrivial": nontrivial,
            "rule": "one evaluation = one explored path of a harness = one solver-decided equivalence class "
                    "of its symbolic parameters (not a sample); distinct = distinct realised witness; "
                    "non-trivial = the path reached at least one declared cover label of its harness",
            "samples": samples,
            "exhaustive": bool(exhaustive),
            "explanation": "bounded symbolic execution of the real microjs code (CrossHair proxies over z3 terms); "
                           "a harness is CONFIRMED only when its path tree is exhausted with no failing and no "
                           "abandoned path; states = completed paths, transitions = solver branch decisions",
            "functions_encoded": functions,
            "bounds": bounds,
            "stubs": stubs,
            "solver": {"engine": "z3 (via crosshair-tool 0.0.110)", "checks": checks,
                       "solver_s": round(solver_s, 1), "cpu_s": round(cpu_s, 1)},
            "harnesses": st,
            "harness_groups": groups,
            "per_harness": per_h,
            "distinct_witnesses": distinct,
            "paths_rejected_by_precondition": ignored,
            "paths_cut_at_bound": cut,
            "paths_abandoned": abandoned,
            "witnesses_rerun_same_interpreter": validated,
            "witnesses_rerun_py312_mismatch": int(rerun.get("mismatch", 0)),
            "excluded_by_known_finding": excluded,
            "known_findings_seen": kf_seen,
            "inconclusive": inconclusive[:50],
            "harness_errors": [e[:300] for e in errors[:20]],
            "trusted_base": ["CrossHair 0.0.110 models of int/float/str/list/dict", "z3 5.1",
                             "vf.refsem oracles (transcribed ECMAScript algorithms)"],
        },
        "assumptions": list(getattr(mod, "ASSUMPTIONS", [])) + [
            "everything outside the listed bounds is outside the claim",
            "a CONFIRMED harness is as good as CrossHair's models on the explored paths; every path "
            "witness is re-run concretely on CPython 3.11 and 3.12 and must agree"],
    }
    if ev["coverage"]["states"] == 0:
        ev["coverage"]["states"] = 0
    os.makedirs(os.path.join(ROOT, "evidence"), exist_ok=True)
    with open(os.path.join(ROOT, "evidence", prop + ".json"), "w") as f:
        json.dump(ev, f, indent=1)
    return ev
