"""Solver-based checking of simonw/micro-javascript (see /verif/DESIGN.md)."""
