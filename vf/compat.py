"""Names a harness body needs, available with and without CrossHair.

Under python3-vt (CrossHair present) the harness runs symbolically; the very same body is
re-run concretely (witness check, replay) under /venv/bin/python, which has no CrossHair.
"""
from contextlib import contextmanager

try:  # symbolic side
    from crosshair.tracers import NoTracing, ResumedTracing, is_tracing  # noqa: F401
    from crosshair.util import IgnoreAttempt  # noqa: F401
    HAVE_CROSSHAIR = True
except ImportError:  # concrete side
    HAVE_CROSSHAIR = False

    class IgnoreAttempt(BaseException):  # type: ignore
        pass

    @contextmanager
    def NoTracing():  # type: ignore
        yield

    @contextmanager
    def ResumedTracing():  # type: ignore
        yield

    def is_tracing():  # type: ignore
        return False


class BoundReached(BaseException):
    """A harness bound (clock readings, VM steps) was used up: the path is cut, not judged."""


class StepBudget(BaseException):
    """The harness's VM step bound (M-steps) was reached: reported as a failing path (the run did
    not end within the number of interpreter steps the harness allows for its bounded inputs)."""


class HangAbort(BaseException):
    """Raised by the watchdog alarm inside a path that loops on concrete data."""


class KnownRegion(BaseException):
    """The path lies inside the region of an open known finding (counted separately)."""


_LABELS = set()
_ACTIVE_REGIONS = {}     # finding id -> predicate, installed by the driver for open findings
_NOTES = {}


def reset_path_state():
    _LABELS.clear()
    _NOTES.clear()


def pre(cond):
    """Precondition: a bound or a documented validity predicate."""
    if not cond:
        raise IgnoreAttempt("pre")


def cover(label, cond=True):
    """Reachability label; `cond` should be concrete (a symbolic one forks the path)."""
    if cond:
        _LABELS.add(label)


def labels():
    return sorted(_LABELS)


def note(key, value):
    """Attach a (concrete or realisable) annotation to the current path."""
    _NOTES[key] = value


def notes():
    return dict(_NOTES)


def known(finding_id, cond):
    """Leave the path if it lies in the region of open known finding `finding_id`.

    `cond` is evaluated by the caller on the (symbolic) harness parameters; the solver
    forks on it, so the complement of the region is still decided.
    """
    if finding_id in _ACTIVE_REGIONS and cond:
        raise KnownRegion(finding_id)


def set_active_regions(ids):
    _ACTIVE_REGIONS.clear()
    for i in ids:
        _ACTIVE_REGIONS[i] = True
