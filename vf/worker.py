"""One worker process: explores a batch of harnesses, prints one JSON line per harness.

usage: python3-vt -m vf.worker <PROP> <tier> <regions|-> <harness-id>...
"""
import json
import os
import sys
import time
import traceback


def concrete_run(fn, args):
    """Re-run the harness body on realised arguments without any symbolic machinery."""
    from . import compat
    compat.reset_path_state()
    try:
        r = fn(*args)
    except compat.IgnoreAttempt:
        return "ignored", ""
    except (compat.BoundReached, compat.KnownRegion):
        return "cut", ""
    except compat.StepBudget:
        return "fail", "step budget exhausted: the run did not end within the harness's step bound"
    except Exception as e:  # noqa: BLE001
        return "exc", "%s: %s" % (type(e).__name__, str(e)[:300])
    if r is True:
        return "ok", ""
    return "fail", str(r)


def same_verdict(rec, cv, cd):
    if rec["verdict"] != cv:
        return False
    if cv == "exc":
        return rec["detail"].split(":")[0] == cd.split(":")[0]
    return True


def main(argv):
    prop, tier, regions = argv[0], argv[1], argv[2]
    ids = argv[3:]
    from .harness_api import load
    from . import compat
    from .codec import dec
    hs, _mod = load(prop)
    by_id = {h.id: h for h in hs}
    compat.set_active_regions([] if regions == "-" else regions.split(","))
    from .sx import explore
    for hid in ids:
        h = by_id[hid]
        t0 = time.time()
        try:
            res = explore(h.fn, per_path=h.per_path, budget=h.budget_for(tier), max_fail=h.max_fail)
            out = res.to_json()
            # path witnesses re-run concretely (same interpreter, no tracing)
            mismatches = []
            validated = 0
            wdir = os.environ.get("VF_WITNESS_DIR")
            wf = open(os.path.join(wdir, hid + ".jsonl"), "w") if wdir else None
            for rec in out["recs"]:
                cv, cd = concrete_run(h.fn, dec(rec["args"]))
                if same_verdict(rec, cv, cd):
                    validated += 1
                else:
                    mismatches.append({"args": rec["args"], "symbolic": [rec["verdict"], rec["detail"]],
                                       "concrete": [cv, cd]})
                if wf:
                    wf.write(json.dumps({"args": rec["args"], "verdict": rec["verdict"],
                                         "detail": rec["detail"]}) + "\n")
            if wf:
                wf.close()
            out["distinct_witnesses"] = len({json.dumps(r["args"]) for r in out["recs"]})
            out["nontrivial"] = len({json.dumps(r["args"]) for r in out["recs"] if r["labels"]})
            out["recs"] = out["recs"][:6]
            out["validated"] = validated
            out["mismatches"] = mismatches[:10]
            out["n_mismatch"] = len(mismatches)
        except BaseException as e:  # noqa: BLE001
            out = {"status": "ERROR", "error": "%s: %s" % (type(e).__name__, e),
                   "trace": traceback.format_exc()[-2000:]}
        out["id"] = hid
        out["wall_s"] = round(time.time() - t0, 3)
        sys.stdout.write("@@RESULT " + json.dumps(out) + "\n")
        sys.stdout.flush()


if __name__ == "__main__":
    main(sys.argv[1:])
