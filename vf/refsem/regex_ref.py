"""The ECMAScript backtracking matcher (ECMA-262 22.2.2, non-unicode mode), transcribed.

Patterns are the harness's own AST (tuples), so the engine's pattern *parser* is under test too:
`render` prints the AST as pattern text for the engine, `compile_pattern` builds the spec's Matcher
(continuation-passing closures) from the same AST.

AST:
  ("char", c) | ("dot",) | ("esc", k)  k in d D w W s S
  ("class", negated, [("range", lo, hi) | ("esc", k)])
  ("assert", k)  k in start end b B
  ("backref", n)
  ("group", node)           capturing
  ("ncgroup", node)         non-capturing
  ("look", ahead, positive, node)
  ("quant", node, min, max_or_None, greedy)
  ("seq", [nodes]) | ("alt", [nodes])
"""

FAIL = None
LINE_TERMINATORS = ("\n", "\r", "\u2028", "\u2029")


def is_line_terminator(ch):
    o = ord(ch)
    return o == 0x0A or o == 0x0D or o == 0x2028 or o == 0x2029


def is_word_char(ch):
    o = ord(ch)
    return (48 <= o <= 57) or (65 <= o <= 90) or (97 <= o <= 122) or o == 95


def is_digit(ch):
    return 48 <= ord(ch) <= 57


def is_space(ch):
    o = ord(ch)
    if o < 0x80:
        return o == 0x20 or 0x09 <= o <= 0x0D
    return (o == 0xA0 or o == 0x1680 or 0x2000 <= o <= 0x200A or o == 0x2028 or o == 0x2029
            or o == 0x202F or o == 0x205F or o == 0x3000 or o == 0xFEFF)


def esc_matches(k, ch):
    if k == "d":
        return is_digit(ch)
    if k == "D":
        return not is_digit(ch)
    if k == "w":
        return is_word_char(ch)
    if k == "W":
        return not is_word_char(ch)
    if k == "s":
        return is_space(ch)
    if k == "S":
        return not is_space(ch)
    raise KeyError(k)


def canonicalize(ch, ignore_case):
    """22.2.2.7.3 Canonicalize (non-unicode mode), for the ASCII / pinned characters the /i harnesses use."""
    if not ignore_case:
        return ch
    o = ord(ch)
    if 97 <= o <= 122:
        return chr(o - 32)
    if o < 128:
        return ch
    u = ch.upper()                       # concrete in the /i harnesses (alphabet-built subjects)
    if len(u) != 1:
        return ch
    if ord(u) < 128:
        return ch
    return u


class State:
    __slots__ = ("end", "caps")

    def __init__(self, end, caps):
        self.end = end
        self.caps = caps            # tuple of (start, end) or None, index 0 unused


def count_groups(node):
    k = node[0]
    if k in ("char", "dot", "esc", "class", "assert", "backref"):
        return 0
    if k == "group":
        return 1 + count_groups(node[1])
    if k == "ncgroup":
        return count_groups(node[1])
    if k == "look":
        return count_groups(node[3])
    if k == "quant":
        return count_groups(node[1])
    if k in ("seq", "alt"):
        return sum(count_groups(n) for n in node[1])
    raise KeyError(k)


class Compiler:
    def __init__(self, flags, input_):
        self.i = "i" in flags
        self.m = "m" in flags
        self.s = "s" in flags
        self.input = input_
        self.n = len(input_)
        self.next_group = 0

    # -- character matchers ----------------------------------------------------------------------
    def char_set(self, pred, invert, direction):
        inp, n = self.input, self.n

        def m(x, c):
            e = x.end
            f = e + direction
            if f < 0 or f > n:
                return FAIL
            ch = inp[min(e, f)]
            found = pred(ch)
            if invert == found:
                return FAIL
            return c(State(f, x.caps))
        return m

    def comp(self, node, direction):
        k = node[0]
        ic = self.i
        if k == "char":
            want = canonicalize(node[1], ic)
            return self.char_set(lambda ch: canonicalize(ch, ic) == want, False, direction)
        if k == "dot":
            if self.s:
                return self.char_set(lambda ch: True, False, direction)
            return self.char_set(lambda ch: not is_line_terminator(ch), False, direction)
        if k == "esc":
            kk = node[1]
            return self.char_set(lambda ch: esc_matches(kk, ch), False, direction)
        if k == "class":
            items = node[2]

            def pred(ch):
                cc = canonicalize(ch, ic)
                for it in items:
                    if it[0] == "esc":
                        if esc_matches(it[1], ch):
                            return True
                    else:
                        lo, hi = it[1], it[2]
                        if not ic:
                            if lo <= ch <= hi:
                                return True
                        else:
                            # exists a in [lo, hi] with Canonicalize(a) == cc (ASCII ranges in the /i family)
                            for o in range(ord(lo), ord(hi) + 1):
                                if canonicalize(chr(o), True) == cc:
                                    return True
                return False
            return self.char_set(pred, node[1], direction)
        if k == "assert":
            return self.assertion(node[1])
        if k == "backref":
            return self.backref(node[1], direction)
        if k == "group":
            self.next_group += 1
            idx = self.next_group
            inner = self.comp(node[1], direction)

            def m(x, c):
                def d(y):
                    if direction == 1:
                        r = (x.end, y.end)
                    else:
                        r = (y.end, x.end)
                    caps = y.caps[:idx] + (r,) + y.caps[idx + 1:]
                    return c(State(y.end, caps))
                return inner(x, d)
            return m
        if k == "ncgroup":
            return self.comp(node[1], direction)
        if k == "look":
            _, ahead, positive, body = node
            inner = self.comp(body, 1 if ahead else -1)

            def m(x, c):
                r = inner(x, lambda y: y)
                if positive:
                    if r is FAIL:
                        return FAIL
                    return c(State(x.end, r.caps))
                if r is not FAIL:
                    return FAIL
                return c(x)
            return m
        if k == "quant":
            _, body, mn, mx, greedy = node
            paren_index = self.next_group
            inner = self.comp(body, direction)
            paren_count = self.next_group - paren_index
            return lambda x, c: self.repeat(inner, mn, mx, greedy, x, c, paren_index, paren_count)
        if k == "seq":
            ms = [self.comp(t, direction) for t in node[1]]
            if direction == -1:
                ms = ms[::-1]      # evaluated right to left; group numbering stays left to right

            def m(x, c, ms=ms):
                def run(i, y):
                    if i == len(ms):
                        return c(y)
                    return ms[i](y, lambda z: run(i + 1, z))
                return run(0, x)
            return m
        if k == "alt":
            ms = [self.comp(t, direction) for t in node[1]]

            def m(x, c):
                for alt in ms:
                    r = alt(x, c)
                    if r is not FAIL:
                        return r
                return FAIL
            return m
        raise KeyError(k)

    def repeat(self, m, mn, mx, greedy, x, c, paren_index, paren_count):
        if mx is not None and mx == 0:
            return c(x)

        def d(y):
            if mn == 0 and y.end == x.end:
                return FAIL
            mn2 = 0 if mn == 0 else mn - 1
            mx2 = None if mx is None else mx - 1
            return self.repeat(m, mn2, mx2, greedy, y, c, paren_index, paren_count)
        caps = x.caps
        if paren_count:
            caps = caps[:paren_index + 1] + (None,) * paren_count + caps[paren_index + paren_count + 1:]
        xr = State(x.end, caps)
        if mn != 0:
            return m(xr, d)
        if not greedy:
            z = c(x)
            if z is not FAIL:
                return z
            return m(xr, d)
        z = m(xr, d)
        if z is not FAIL:
            return z
        return c(x)

    def assertion(self, kind):
        inp, n, multi = self.input, self.n, self.m

        def word_at(e):
            if e < 0 or e >= n:
                return False
            return is_word_char(inp[e])

        def m(x, c):
            e = x.end
            if kind == "start":
                ok = e == 0 or (multi and is_line_terminator(inp[e - 1]))
            elif kind == "end":
                ok = e == n or (multi and is_line_terminator(inp[e]))
            elif kind == "b":
                ok = word_at(e - 1) != word_at(e)
            else:
                ok = word_at(e - 1) == word_at(e)
            if not ok:
                return FAIL
            return c(x)
        return m

    def backref(self, nref, direction):
        inp, n, ic = self.input, self.n, self.i

        def m(x, c):
            r = x.caps[nref] if nref < len(x.caps) else None
            if r is None:
                return c(x)
            rs, re_ = r
            ln = re_ - rs
            e = x.end
            f = e + ln if direction == 1 else e - ln
            if f < 0 or f > n:
                return FAIL
            g = min(e, f)
            for i in range(ln):
                if canonicalize(inp[rs + i], ic) != canonicalize(inp[g + i], ic):
                    return FAIL
            return c(State(f, x.caps))
        return m


def exec_ref(ast, flags, input_, last_index=0, sticky=False):
    """RegExpBuiltinExec's search loop.  -> None | (index, [matched, cap1, ...]) with None for
    groups that did not participate."""
    ngroups = count_groups(ast)
    comp = Compiler(flags, input_)
    m = comp.comp(ast, 1)
    n = len(input_)
    i = last_index
    while i <= n:
        r = m(State(i, (None,) * (ngroups + 1)), lambda y: y)
        if r is not FAIL:
            out = [input_[i:r.end]]
            for k in range(1, ngroups + 1):
                cap = r.caps[k]
                out.append(None if cap is None else input_[cap[0]:cap[1]])
            return i, r.end, out
        if sticky:
            return None
        i += 1
    return None


# ---- rendering ------------------------------------------------------------------------------------
META = set("\\^$.*+?()[]{}|/")


def render_char(c, in_class=False):
    if in_class:
        if c in "\\]^-":
            return "\\" + c
        return c
    if c in META:
        return "\\" + c
    if c == "\n":
        return "\\n"
    return c


def render(node, parent="alt"):
    k = node[0]
    if k == "char":
        return render_char(node[1])
    if k == "dot":
        return "."
    if k == "esc":
        return "\\" + node[1]
    if k == "class":
        out = "[" + ("^" if node[1] else "")
        for it in node[2]:
            if it[0] == "esc":
                out += "\\" + it[1]
            elif it[1] == it[2]:
                out += render_char(it[1], True)
            else:
                out += render_char(it[1], True) + "-" + render_char(it[2], True)
        return out + "]"
    if k == "assert":
        return {"start": "^", "end": "$", "b": "\\b", "B": "\\B"}[node[1]]
    if k == "backref":
        return "\\" + str(node[1])
    if k == "group":
        return "(" + render(node[1]) + ")"
    if k == "ncgroup":
        return "(?:" + render(node[1]) + ")"
    if k == "look":
        return "(?" + ("" if node[1] else "<") + ("=" if node[2] else "!") + render(node[3]) + ")"
    if k == "quant":
        _, body, mn, mx, greedy = node
        b = render(body, "quant")
        if body[0] in ("seq", "alt", "quant") or (body[0] == "assert") or body[0] == "look":
            b = "(?:" + render(body) + ")"
        if (mn, mx) == (0, None):
            q = "*"
        elif (mn, mx) == (1, None):
            q = "+"
        elif (mn, mx) == (0, 1):
            q = "?"
        elif mx is None:
            q = "{%d,}" % mn
        elif mn == mx:
            q = "{%d}" % mn
        else:
            q = "{%d,%d}" % (mn, mx)
        return b + q + ("" if greedy else "?")
    if k == "seq":
        parts = []
        for t in node[1]:
            r = render(t, "seq")
            if t[0] == "alt":
                r = "(?:" + r + ")"
            parts.append(r)
        return "".join(parts)
    if k == "alt":
        return "|".join(render(t, "alt") for t in node[1])
    raise KeyError(k)


# ---- RegExp objects, lastIndex and the regex-driven String methods (22.2.6-7, 22.1.3) ----------------
class RRegExp:
    """Reference RegExp object: pattern AST + flags + the lastIndex property (any refsem value)."""

    def __init__(self, ast, flags, last_index=0):
        self.ast = ast
        self.flags = flags
        self.last_index = last_index
        self.global_ = "g" in flags
        self.sticky = "y" in flags
        self.mflags = "".join(f for f in flags if f in "ims")


def to_length(v):
    """ToLength(ToNumber(v)) for the refsem primitives used as lastIndex."""
    from . import ops as R
    n = R.to_number(v)
    if isinstance(n, float):
        if n != n:
            return 0
        if n == float("inf"):
            return 2 ** 53 - 1
        if n == float("-inf"):
            return 0
        n = int(n)
    if n <= 0:
        return 0
    return min(n, 2 ** 53 - 1)


def builtin_exec(rx, s):
    """RegExpBuiltinExec: -> None | (index, [matched, caps...]); updates rx.last_index as specified."""
    last = to_length(rx.last_index)
    if not rx.global_ and not rx.sticky:
        last = 0
    if last > len(s):
        if rx.global_ or rx.sticky:
            rx.last_index = 0
        return None
    r = exec_ref(rx.ast, rx.mflags, s, last, rx.sticky)
    if r is None:
        if rx.global_ or rx.sticky:
            rx.last_index = 0
        return None
    index, end, groups = r
    if rx.global_ or rx.sticky:
        rx.last_index = end
    return index, groups


def get_substitution(matched, s, position, captures, template):
    """GetSubstitution (22.1.3.19.1) without named groups."""
    out = []
    m = len(captures)
    i, n = 0, len(template)
    tail = position + len(matched)
    while i < n:
        c = template[i]
        if c != "$" or i + 1 >= n:
            out.append(c)
            i += 1
            continue
        d = template[i + 1]
        if d == "$":
            out.append("$")
            i += 2
        elif d == "&":
            out.append(matched)
            i += 2
        elif d == "`":
            out.append(s[:position])
            i += 2
        elif d == "'":
            out.append(s[tail:] if tail < len(s) else "")
            i += 2
        elif "0" <= d <= "9":
            two = None
            if i + 2 < n and "0" <= template[i + 2] <= "9":
                two = int(d + template[i + 2])
            if two is not None and 1 <= two <= m:
                cap = captures[two - 1]
                out.append("" if cap is None else cap)
                i += 3
            else:
                one = int(d)
                if 1 <= one <= m:
                    cap = captures[one - 1]
                    out.append("" if cap is None else cap)
                    i += 2
                else:
                    out.append("$")
                    i += 1
        else:
            out.append("$")
            i += 1
    return "".join(out)


def str_match(s, rx):
    """String.prototype.match with a regex -> None | list (global) | (index, groups) (non-global)."""
    if not rx.global_:
        return builtin_exec(rx, s)
    rx.last_index = 0
    out = []
    while True:
        r = builtin_exec(rx, s)
        if r is None:
            return out if out else None
        out.append(r[1][0])
        if r[1][0] == "":
            rx.last_index = to_length(rx.last_index) + 1
    return out


def _collect(s, rx):
    results = []
    if rx.global_:
        rx.last_index = 0
    while True:
        r = builtin_exec(rx, s)
        if r is None:
            break
        results.append(r)
        if not rx.global_:
            break
        if r[1][0] == "":
            rx.last_index = to_length(rx.last_index) + 1
    return results


def str_replace(s, rx, replacement, call=None):
    """String.prototype.replace / replaceAll with a regex; `replacement` is a template string or, with
    `call`, a function value invoked as call(fn, [matched, caps..., position, s])."""
    results = _collect(s, rx)
    acc = []
    next_pos = 0
    for index, groups in results:
        matched = groups[0]
        position = max(min(index, len(s)), 0)
        caps = groups[1:]
        if call is not None:
            rep = call(replacement, [matched] + list(caps) + [position, s])
        else:
            rep = get_substitution(matched, s, position, caps, replacement)
        if position >= next_pos:
            acc.append(s[next_pos:position])
            acc.append(rep)
            next_pos = position + len(matched)
    if next_pos >= len(s):
        return "".join(acc)
    return "".join(acc) + s[next_pos:]


def str_search(s, rx):
    prev = rx.last_index
    rx.last_index = 0
    r = builtin_exec(rx, s)
    rx.last_index = prev
    return -1 if r is None else r[0]


def str_split(s, rx, limit=None):
    """String.prototype.split with a regex separator; limit: None (undefined) or a uint32 integer."""
    lim = 2 ** 32 - 1 if limit is None else limit
    if lim == 0:
        return []
    size = len(s)
    if size == 0:
        r = exec_ref(rx.ast, rx.mflags, s, 0, True)
        return [] if r is not None else [s]
    out = []
    p = q = 0
    while q < size:
        r = exec_ref(rx.ast, rx.mflags, s, q, True)
        if r is None:
            q += 1
            continue
        e = min(r[1], size)
        if e == p:
            q += 1
            continue
        out.append(s[p:q])
        if len(out) == lim:
            return out
        p = e
        for cap in r[2][1:]:
            out.append(cap)
            if len(out) == lim:
                return out
        q = p
    out.append(s[p:size])
    return out
