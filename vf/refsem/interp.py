"""Definitional interpreter for the statement / closure / exception / object subset (DESIGN 2.3).

It walks the AST produced by the engine's own parser (C13 judges the parser) and implements the
ECMAScript strict-mode semantics of the constructs the harness skeletons use: environments are
dict chains, abrupt completions are Python exceptions, objects are ordered property maps with a
prototype link.  Operators come from refsem.ops, so numbers follow the double semantics.

Documented engine restrictions mirrored here (spec.md "Stricter Mode"): strict mode only, for-in
iterates own enumerable properties only, no holes in arrays, all declarations are function scoped
(`let`/`const` are treated like `var`, as the engine does).
"""
from . import ops as R
from .num import UNDEF, NULL, Unspecified


class Unsupported(Exception):
    """Construct outside the transcribed subset: the path is not judged."""


class BreakEx(BaseException):
    def __init__(self, label):
        self.label = label


class ContinueEx(BaseException):
    def __init__(self, label):
        self.label = label


class ReturnEx(BaseException):
    def __init__(self, value):
        self.value = value


class ThrowEx(Exception):
    def __init__(self, value):
        self.value = value


class StepLimit(BaseException):
    pass


class RObj:
    klass = "Object"

    def __init__(self, proto=None):
        self.props = {}          # name -> ("data", value) | ("acc", getter, setter)
        self.proto = proto

    def own(self, k):
        return self.props.get(k)


class RArr(RObj):
    klass = "Array"

    def __init__(self, proto, elems):
        super().__init__(proto)
        self.elems = elems


class RFun(RObj):
    klass = "Function"

    def __init__(self, proto, kind, name="", params=(), node=None, env=None, host=None, this_lex=None,
                 is_arrow=False, bound=None, ctor=False):
        super().__init__(proto)
        self.kind = kind          # script | host | bound
        self.name = name
        self.params = list(params)
        self.node = node
        self.env = env
        self.host = host
        self.is_arrow = is_arrow
        self.this_lex = this_lex
        self.bound = bound        # (target, this, args)
        self.ctor = ctor


class Env:
    def __init__(self, parent=None, vars_=None):
        self.vars = vars_ if vars_ is not None else {}
        self.parent = parent

    def lookup(self, name):
        e = self
        while e is not None:
            if name in e.vars:
                return e
            e = e.parent
        return None


def is_callable(v):
    return isinstance(v, RFun)


def array_index(key):
    """Canonical array index of a property key (a refsem string or number) or None."""
    if isinstance(key, bool):
        return None
    if isinstance(key, int):
        return key if key >= 0 else None
    if isinstance(key, float):
        if key == key and key >= 0 and key == int(key) and key < 4294967295:
            return int(key)
        return None
    if isinstance(key, str):
        if len(key) == 0 or len(key) > 10:
            return None
        n = 0
        for ch in key:
            o = ord(ch)
            if o < 48 or o > 57:
                return None
            n = n * 10 + (o - 48)
        if len(key) > 1 and key[0] == "0":
            return None
        return n
    return None


class Interp:
    def __init__(self, max_steps=20000):
        self.steps = 0
        self.max_steps = max_steps
        self.log = []
        self.object_proto = RObj(None)
        self.function_proto = RObj(self.object_proto)
        self.array_proto = RObj(self.object_proto)
        self.error_protos = {}
        self.globals = {}
        self.genv = Env(None, self.globals)
        self._install()

    # ------------------------------------------------------------------ builtins
    def host(self, name, fn, nparams=0):
        f = RFun(self.function_proto, "host", name=name, host=fn, params=["a%d" % i for i in range(nparams)])
        return f

    def _install(self):
        g = self.globals
        g["undefined"] = UNDEF
        g["NaN"] = float("nan")
        g["Infinity"] = float("inf")

        def log_fn(this, args):
            self.log.append(tuple(self.snapshot(a) for a in args))
            return UNDEF
        g["log"] = self.host("log", log_fn)

        # Error constructors
        def make_error_ctor(name, parent_proto):
            proto = RObj(parent_proto)
            proto.props["name"] = ("data", name)
            proto.props["message"] = ("data", "")

            def ctor(this, args, new_target=None):
                o = RObj(proto)
                if args and args[0] is not UNDEF:
                    o.props["message"] = ("data", self.to_string(args[0]))
                return o
            f = self.host(name, ctor, 1)
            f.ctor = True
            f.props["prototype"] = ("data", proto)
            proto.props["constructor"] = ("data", f)
            self.error_protos[name] = proto
            g[name] = f
            return proto
        ep = make_error_ctor("Error", self.object_proto)
        for n in ("TypeError", "ReferenceError", "RangeError", "SyntaxError", "EvalError", "URIError"):
            make_error_ctor(n, ep)

        # Object
        def object_ctor(this, args, new_target=None):
            return RObj(self.object_proto)
        obj = self.host("Object", object_ctor, 1)
        obj.ctor = True
        obj.props["prototype"] = ("data", self.object_proto)
        self.object_proto.props["constructor"] = ("data", obj)

        def o_create(this, args):
            p = args[0] if args else UNDEF
            if p is not NULL and not isinstance(p, RObj):
                self.throw_error("TypeError", "Object prototype may only be an Object or null")
            return RObj(None if p is NULL else p)

        def o_keys(this, args):
            o = args[0] if args else UNDEF
            return self.new_array(self.own_keys(self.to_object(o)))

        def o_gpo(this, args):
            o = self.to_object(args[0] if args else UNDEF)
            return NULL if o.proto is None else o.proto

        def o_spo(this, args):
            o = args[0] if args else UNDEF
            p = args[1] if len(args) > 1 else UNDEF
            if p is not NULL and not isinstance(p, RObj):
                self.throw_error("TypeError", "Object prototype may only be an Object or null")
            if isinstance(o, RObj):
                x = None if p is NULL else p
                while x is not None:
                    if x is o:
                        self.throw_error("TypeError", "Cyclic __proto__ value")
                    x = x.proto
                o.proto = None if p is NULL else p
            return o
        def o_values(this, args):
            o = self.to_object(args[0] if args else UNDEF)
            return self.new_array([self.get(o, k) for k in self.own_keys(o) if self.has_own(o, k)])

        def o_entries(this, args):
            o = self.to_object(args[0] if args else UNDEF)
            return self.new_array([self.new_array([k, self.get(o, k)]) for k in self.own_keys(o) if self.has_own(o, k)])

        def o_define(this, args):
            o = args[0] if args else UNDEF
            if not isinstance(o, RObj):
                self.throw_error("TypeError", "Object.defineProperty called on non-object")
            key = self.to_key(args[1] if len(args) > 1 else UNDEF)
            desc = args[2] if len(args) > 2 else UNDEF
            if not isinstance(desc, RObj):
                self.throw_error("TypeError", "Property description must be an object")
            if isinstance(o, RArr) and (key == "length" or array_index(key) is not None):
                raise Unsupported("defineProperty on an array element")
            has_get, has_set = self.has_property(desc, "get"), self.has_property(desc, "set")
            if has_get or has_set:
                if self.has_property(desc, "value"):
                    self.throw_error("TypeError", "Invalid property descriptor")
                g = self.get(desc, "get") if has_get else UNDEF
                st = self.get(desc, "set") if has_set else UNDEF
                for f in (g, st):
                    if f is not UNDEF and not is_callable(f):
                        self.throw_error("TypeError", "Getter/setter must be a function")
                old = o.props.get(key)
                og, os_ = (old[1], old[2]) if old is not None and old[0] == "acc" else (None, None)
                o.props[key] = ("acc", (None if g is UNDEF else g) if has_get else og, (None if st is UNDEF else st) if has_set else os_)
            else:
                old = o.props.get(key)
                if self.has_property(desc, "value"):
                    o.props[key] = ("data", self.get(desc, "value"))
                elif old is None:
                    o.props[key] = ("data", UNDEF)
            existed = old is not None
            if self.has_property(desc, "enumerable") or not existed:
                hid = getattr(o, "hidden", None)
                if hid is None:
                    hid = o.hidden = set()
                if R.to_boolean(self.prim_or_obj(self.get(desc, "enumerable"))):
                    hid.discard(key)
                else:
                    hid.add(key)
            return o
        obj.props["values"] = ("data", self.host("values", o_values, 1))
        obj.props["entries"] = ("data", self.host("entries", o_entries, 1))
        obj.props["defineProperty"] = ("data", self.host("defineProperty", o_define, 3))
        obj.props["create"] = ("data", self.host("create", o_create, 2))
        obj.props["keys"] = ("data", self.host("keys", o_keys, 1))
        obj.props["getPrototypeOf"] = ("data", self.host("getPrototypeOf", o_gpo, 1))
        obj.props["setPrototypeOf"] = ("data", self.host("setPrototypeOf", o_spo, 2))
        g["Object"] = obj

        def has_own(this, args):
            k = self.to_key(args[0] if args else UNDEF)
            return self.has_own(self.to_object(this), k)
        self.object_proto.props["hasOwnProperty"] = ("data", self.host("hasOwnProperty", has_own, 1))

        # Function.prototype
        def f_call(this, args):
            return self.call(this, args[0] if args else UNDEF, list(args[1:]))

        def f_apply(this, args):
            arr = args[1] if len(args) > 1 else UNDEF
            lst = list(arr.elems) if isinstance(arr, RArr) else []
            return self.call(this, args[0] if args else UNDEF, lst)

        def f_bind(this, args):
            if not is_callable(this):
                self.throw_error("TypeError", "Bind must be called on a function")
            b = RFun(self.function_proto, "bound", name="bound " + this.name,
                     bound=(this, args[0] if args else UNDEF, list(args[1:])))
            b.params = this.params[len(args) - 1:] if len(args) > 1 else list(this.params)
            return b
        self.function_proto.props["call"] = ("data", self.host("call", f_call, 1))
        self.function_proto.props["apply"] = ("data", self.host("apply", f_apply, 2))
        self.function_proto.props["bind"] = ("data", self.host("bind", f_bind, 1))

        # Array.prototype (the methods the skeletons use)
        ap = self.array_proto

        def a_push(this, args):
            this.elems.extend(args)
            return len(this.elems)

        def a_pop(this, args):
            return this.elems.pop() if this.elems else UNDEF

        def a_for_each(this, args):
            f, t = (args[0] if args else UNDEF), (args[1] if len(args) > 1 else UNDEF)
            i = 0
            while i < len(this.elems):
                self.call(f, t, [this.elems[i], i, this])
                i += 1
            return UNDEF

        def a_map(this, args):
            f, t = (args[0] if args else UNDEF), (args[1] if len(args) > 1 else UNDEF)
            out = []
            n = len(this.elems)
            i = 0
            while i < n and i < len(this.elems):
                out.append(self.call(f, t, [this.elems[i], i, this]))
                i += 1
            return self.new_array(out)

        def a_filter(this, args):
            f, t = (args[0] if args else UNDEF), (args[1] if len(args) > 1 else UNDEF)
            out = []
            n = len(this.elems)
            i = 0
            while i < n and i < len(this.elems):
                v = this.elems[i]
                if R.to_boolean(self.prim_or_obj(self.call(f, t, [v, i, this]))):
                    out.append(v)
                i += 1
            return self.new_array(out)

        def a_some(this, args):
            f, t = (args[0] if args else UNDEF), (args[1] if len(args) > 1 else UNDEF)
            i = 0
            while i < len(this.elems):
                if R.to_boolean(self.prim_or_obj(self.call(f, t, [this.elems[i], i, this]))):
                    return True
                i += 1
            return False

        def a_every(this, args):
            f, t = (args[0] if args else UNDEF), (args[1] if len(args) > 1 else UNDEF)
            i = 0
            while i < len(this.elems):
                if not R.to_boolean(self.prim_or_obj(self.call(f, t, [this.elems[i], i, this]))):
                    return False
                i += 1
            return True

        def a_reduce(this, args):
            f = args[0] if args else UNDEF
            i = 0
            if len(args) > 1:
                acc = args[1]
            else:
                if not this.elems:
                    self.throw_error("TypeError", "Reduce of empty array with no initial value")
                acc = this.elems[0]
                i = 1
            while i < len(this.elems):
                acc = self.call(f, UNDEF, [acc, this.elems[i], i, this])
                i += 1
            return acc

        def a_join(this, args):
            sep = "," if not args or args[0] is UNDEF else self.to_string(args[0])
            return sep.join("" if (e is UNDEF or e is NULL) else self.to_string(e) for e in this.elems)

        def a_index_of(this, args):
            x = args[0] if args else UNDEF
            for i, e in enumerate(this.elems):
                if self.strict_equals(e, x):
                    return i
            return -1
        def a_sort(this, args):
            if args and args[0] is not UNDEF:
                raise Unsupported("sort with a comparator")
            und = [e for e in this.elems if e is UNDEF]
            rest = [e for e in this.elems if e is not UNDEF]
            rest.sort(key=lambda e: [ord(c) for c in self.to_string(e)])
            this.elems[:] = rest + und
            return this
        ap.props["sort"] = ("data", self.host("sort", self._array_guard(a_sort), 1))
        for nm, fn, k in (("push", a_push, 1), ("pop", a_pop, 0), ("forEach", a_for_each, 1), ("map", a_map, 1),
                          ("filter", a_filter, 1), ("some", a_some, 1), ("every", a_every, 1),
                          ("reduce", a_reduce, 1), ("join", a_join, 1), ("indexOf", a_index_of, 1)):
            ap.props[nm] = ("data", self.host(nm, self._array_guard(fn), k))

        def array_ctor(this, args, new_target=None):
            return self.new_array(list(args))
        arr = self.host("Array", array_ctor, 1)
        arr.ctor = True
        arr.props["prototype"] = ("data", ap)
        ap.props["constructor"] = ("data", arr)
        arr.props["isArray"] = ("data", self.host("isArray", lambda this, args: isinstance(args[0] if args else UNDEF, RArr), 1))
        g["Array"] = arr

        for proto in [self.object_proto, self.function_proto, self.array_proto] + list(self.error_protos.values()):
            proto.hidden = set(proto.props)
        fn_ctor = self.host("Function", lambda this, args, new_target=None: self._unsupported("Function()"), 1)
        fn_ctor.props["prototype"] = ("data", self.function_proto)
        g["Function"] = fn_ctor

    def _array_guard(self, fn):
        def wrapped(this, args):
            if not isinstance(this, RArr):
                raise Unsupported("array method on a non-array receiver")
            return fn(this, args)
        return wrapped

    def _unsupported(self, what):
        raise Unsupported(what)

    # ------------------------------------------------------------------ helpers
    def snapshot(self, v):
        """Observable rendering of a value for the log (primitives as they are)."""
        if isinstance(v, RArr):
            return ("array",) + tuple(self.snapshot(e) for e in v.elems)
        if isinstance(v, RFun):
            return ("function",)
        if isinstance(v, RObj):
            return ("object",)
        return v

    def new_array(self, elems):
        return RArr(self.array_proto, list(elems))

    def throw_error(self, name, message):
        o = RObj(self.error_protos[name])
        o.props["message"] = ("data", message)
        raise ThrowEx(o)

    def tick(self):
        self.steps += 1
        if self.steps > self.max_steps:
            raise StepLimit()

    def prim_or_obj(self, v):
        return v

    def to_object(self, v):
        if v is UNDEF or v is NULL:
            self.throw_error("TypeError", "Cannot convert undefined or null to object")
        if isinstance(v, RObj):
            return v
        raise Unsupported("primitive wrapper objects")

    def to_primitive(self, v, hint="default"):
        if not isinstance(v, RObj):
            return v
        order = ("toString", "valueOf") if hint == "string" else ("valueOf", "toString")
        for name in order:
            m = self.get(v, name)
            if is_callable(m):
                r = self.call(m, v, [])
                if not isinstance(r, RObj):
                    return r
        if isinstance(v, RArr) or isinstance(v, RFun) or True:
            # Object.prototype.toString / Array join / Function source text: not transcribed
            raise Unsupported("default object-to-primitive conversion")

    def to_string(self, v):
        v = self.to_primitive(v, "string")
        return R.to_string(v)

    def to_key(self, v):
        v = self.to_primitive(v, "string")
        if isinstance(v, str):
            return v
        if isinstance(v, int) and not isinstance(v, bool):
            return str(v) if -10 ** 21 < v < 10 ** 21 else R.to_string(v)
        return R.to_string(v)

    def strict_equals(self, a, b):
        if isinstance(a, RObj) or isinstance(b, RObj):
            return a is b
        return R.strict_equals(a, b)

    def loose_equals(self, a, b):
        if isinstance(a, RObj) and isinstance(b, RObj):
            return a is b
        if isinstance(a, RObj):
            if b is UNDEF or b is NULL:
                return False
            return R.loose_equals(self.to_primitive(a), b)
        if isinstance(b, RObj):
            if a is UNDEF or a is NULL:
                return False
            return R.loose_equals(a, self.to_primitive(b))
        return R.loose_equals(a, b)

    # ------------------------------------------------------------------ objects
    def own_keys(self, o):
        keys = []
        if isinstance(o, RArr):
            keys.extend(str(i) for i in range(len(o.elems)))
        ints = sorted((array_index(k), k) for k in o.props if array_index(k) is not None)
        keys.extend(k for _, k in ints)
        keys.extend(k for k in o.props if array_index(k) is None)
        hidden = getattr(o, "hidden", None)
        if isinstance(o, RFun):
            keys = [k for k in keys if k != "prototype"]
        if hidden:
            keys = [k for k in keys if k not in hidden]
        return keys

    def has_own(self, o, k):
        if isinstance(o, RArr):
            if k == "length":
                return True
            i = array_index(k)
            if i is not None and i < len(o.elems):
                return True
        if isinstance(o, RFun) and k in ("length", "name") and k not in o.props:
            return True
        if isinstance(o, RFun) and k == "prototype" and o.kind == "script" and not o.is_arrow:
            self.fn_prototype(o)
        return k in o.props

    def has_property(self, o, k):
        while o is not None:
            if self.has_own(o, k):
                return True
            o = o.proto
        return False

    def fn_prototype(self, f):
        if "prototype" not in f.props:
            p = RObj(self.object_proto)
            p.props["constructor"] = ("data", f)
            p.hidden = {"constructor"}
            f.props["prototype"] = ("data", p)
        return f.props["prototype"][1]

    def get(self, base, key, receiver=None):
        """[[Get]] with `key` already a property key (string)."""
        if base is UNDEF or base is NULL:
            self.throw_error("TypeError", "Cannot read properties of %s" % R.to_string(base))
        if not isinstance(base, RObj):
            raise Unsupported("property access on a primitive")
        recv = base if receiver is None else receiver
        o = base
        while o is not None:
            if isinstance(o, RArr):
                if key == "length":
                    return len(o.elems)
                i = array_index(key)
                if i is not None and i < len(o.elems):
                    return o.elems[i]
            if isinstance(o, RFun) and key not in o.props:
                if key == "length":
                    return len(o.params)
                if key == "name":
                    return o.name
                if key == "prototype" and o.kind == "script" and not o.is_arrow:
                    return self.fn_prototype(o)
            slot = o.props.get(key)
            if slot is not None:
                if slot[0] == "data":
                    return slot[1]
                if slot[1] is None:
                    return UNDEF
                return self.call(slot[1], recv, [])
            o = o.proto
        if key == "__proto__" and self._inherits_object_proto(base):
            return NULL if base.proto is None else base.proto
        return UNDEF

    def _inherits_object_proto(self, o):
        while o is not None:
            if o is self.object_proto:
                return True
            o = o.proto
        return False

    def put(self, base, key, value):
        """[[Set]] in strict mode (ordinary objects)."""
        if base is UNDEF or base is NULL:
            self.throw_error("TypeError", "Cannot set properties of %s" % R.to_string(base))
        if not isinstance(base, RObj):
            raise Unsupported("property write on a primitive")
        if isinstance(base, RArr):
            if key == "length":
                raise Unsupported("array length assignment")
            i = array_index(key)
            if i is not None:
                if i < len(base.elems):
                    base.elems[i] = value
                    return
                if i == len(base.elems):
                    base.elems.append(value)
                    return
                raise Unsupported("array write beyond length (documented engine restriction)")
        if key == "__proto__" and key not in base.props and self._inherits_object_proto(base):
            if value is NULL:
                base.proto = None
            elif isinstance(value, RObj):
                o = value
                while o is not None:
                    if o is base:
                        self.throw_error("TypeError", "Cyclic __proto__ value")
                    o = o.proto
                base.proto = value
            return
        # accessor anywhere on the chain?
        o = base
        while o is not None:
            slot = o.props.get(key)
            if slot is not None:
                if slot[0] == "acc":
                    if slot[2] is None:
                        # sloppy code ignores the write, strict code throws: not judged
                        raise Unsupported("assignment to an accessor without a setter")
                    self.call(slot[2], base, [value])
                    return
                break
            o = o.proto
        base.props[key] = ("data", value)

    def delete(self, base, key):
        if base is UNDEF or base is NULL:
            self.throw_error("TypeError", "Cannot convert undefined or null to object")
        if not isinstance(base, RObj):
            return True
        if isinstance(base, RArr) and (key == "length" or array_index(key) is not None):
            raise Unsupported("delete of an array element")
        base.props.pop(key, None)
        if getattr(base, "hidden", None):
            base.hidden.discard(key)
        return True

    def instance_of(self, v, c):
        if not is_callable(c):
            self.throw_error("TypeError", "Right-hand side of 'instanceof' is not callable")
        if c.kind == "bound":
            return self.instance_of(v, c.bound[0])
        if not isinstance(v, RObj):
            return False
        p = self.get(c, "prototype")
        if not isinstance(p, RObj):
            self.throw_error("TypeError", "Function has non-object prototype in instanceof check")
        o = v.proto
        while o is not None:
            if o is p:
                return True
            o = o.proto
        return False

    # ------------------------------------------------------------------ calls
    def call(self, f, this, args):
        self.tick()
        if not is_callable(f):
            self.throw_error("TypeError", "value is not a function")
        if f.kind == "host":
            return f.host(this, list(args))
        if f.kind == "bound":
            t, bthis, bargs = f.bound
            return self.call(t, bthis, list(bargs) + list(args))
        return self.invoke(f, this, args, None)

    def construct(self, f, args):
        self.tick()
        if not is_callable(f):
            self.throw_error("TypeError", "value is not a constructor")
        if f.kind == "bound":
            t, _bthis, bargs = f.bound
            return self.construct(t, list(bargs) + list(args))
        if f.kind == "host":
            if not f.ctor:
                self.throw_error("TypeError", "%s is not a constructor" % f.name)
            return f.host(UNDEF, list(args), f)
        if f.is_arrow:
            self.throw_error("TypeError", "arrow function is not a constructor")
        proto = self.get(f, "prototype")
        obj = RObj(proto if isinstance(proto, RObj) else self.object_proto)
        r = self.invoke(f, obj, args, f)
        return r if isinstance(r, RObj) else obj

    def invoke(self, f, this, args, new_target):
        node = f.node
        env = Env(f.env, {})
        if f.is_arrow:
            this = f.this_lex
        else:
            env.vars["arguments"] = self.new_array(list(args))
        if f.kind == "script" and getattr(node, "id", None) is not None and not f.is_arrow \
                and type(node).__name__ == "FunctionExpression":
            env = Env(Env(f.env, {node.id.name: f}), env.vars)
        for i, p in enumerate(f.params):
            env.vars[p] = args[i] if i < len(args) else UNDEF
        body = node.body
        if f.is_arrow and getattr(node, "expression", False):
            return self.ev(body, env, this)
        self.hoist(body.body, env)
        try:
            for st in body.body:
                self.ex(st, env, this)
        except ReturnEx as r:
            return r.value
        return UNDEF

    def make_function(self, node, env, this, name=None):
        kind = type(node).__name__
        is_arrow = kind == "ArrowFunctionExpression"
        nm = name or (node.id.name if getattr(node, "id", None) is not None else "")
        f = RFun(self.function_proto, "script", name=nm, params=[p.name for p in node.params], node=node, env=env,
                 is_arrow=is_arrow, this_lex=this if is_arrow else None)
        return f

    # ------------------------------------------------------------------ declarations
    def hoist(self, stmts, env):
        """var declarations -> undefined, function declarations -> closures (function scoped)."""
        for st in stmts:
            self._hoist_vars(st, env)
        for st in stmts:
            self._hoist_funcs(st, env)

    def _hoist_vars(self, st, env):
        k = type(st).__name__
        if k == "VariableDeclaration":
            for d in st.declarations:
                if d.id.name not in env.vars:
                    env.vars[d.id.name] = UNDEF
        elif k == "FunctionDeclaration":
            if st.id.name not in env.vars:
                env.vars[st.id.name] = UNDEF
        elif k in ("BlockStatement",):
            for s in st.body:
                self._hoist_vars(s, env)
        elif k == "IfStatement":
            self._hoist_vars(st.consequent, env)
            if st.alternate is not None:
                self._hoist_vars(st.alternate, env)
        elif k in ("WhileStatement", "DoWhileStatement", "LabeledStatement"):
            self._hoist_vars(st.body, env)
        elif k == "ForStatement":
            if st.init is not None:
                self._hoist_vars(st.init, env)
            self._hoist_vars(st.body, env)
        elif k in ("ForInStatement", "ForOfStatement"):
            self._hoist_vars(st.left, env)
            self._hoist_vars(st.body, env)
        elif k == "TryStatement":
            self._hoist_vars(st.block, env)
            if st.handler is not None:
                self._hoist_vars(st.handler.body, env)
            if st.finalizer is not None:
                self._hoist_vars(st.finalizer, env)
        elif k == "SwitchStatement":
            for c in st.cases:
                for s in c.consequent:
                    self._hoist_vars(s, env)

    def _hoist_funcs(self, st, env):
        k = type(st).__name__
        if k == "FunctionDeclaration":
            env.vars[st.id.name] = self.make_function(st, env, UNDEF)
        elif k == "BlockStatement":
            for s in st.body:
                self._hoist_funcs(s, env)
        elif k == "IfStatement":
            self._hoist_funcs(st.consequent, env)
            if st.alternate is not None:
                self._hoist_funcs(st.alternate, env)
        elif k in ("WhileStatement", "DoWhileStatement", "LabeledStatement", "ForStatement", "ForInStatement",
                   "ForOfStatement"):
            self._hoist_funcs(st.body, env)
        elif k == "TryStatement":
            self._hoist_funcs(st.block, env)
            if st.handler is not None:
                self._hoist_funcs(st.handler.body, env)
            if st.finalizer is not None:
                self._hoist_funcs(st.finalizer, env)
        elif k == "SwitchStatement":
            for c in st.cases:
                for s in c.consequent:
                    self._hoist_funcs(s, env)

    # ------------------------------------------------------------------ program
    def run(self, program):
        """Evaluate a Program node; returns its completion value (the engine returns the value of the
        last statement when it is an expression statement, undefined otherwise)."""
        env = self.genv
        self.hoist(program.body, env)
        last = UNDEF
        for i, st in enumerate(program.body):
            v = self.ex(st, env, UNDEF)
            if i == len(program.body) - 1:
                last = v
        return last

    # ------------------------------------------------------------------ statements
    def ex(self, st, env, this, labels=()):
        """Execute a statement; returns the statement's value where it is an expression statement."""
        self.tick()
        k = type(st).__name__
        if k == "ExpressionStatement":
            return self.ev(st.expression, env, this)
        if k == "VariableDeclaration":
            for d in st.declarations:
                if d.init is not None:
                    v = self.ev(d.init, env, this)
                    if type(d.init).__name__ in ("FunctionExpression", "ArrowFunctionExpression") \
                            and isinstance(v, RFun) and v.name == "":
                        v.name = d.id.name
                    self.assign_name(d.id.name, v, env, declare=True)
            return UNDEF
        if k == "FunctionDeclaration" or k == "EmptyStatement":
            return UNDEF
        if k == "BlockStatement":
            v = UNDEF
            for s in st.body:
                v = self.ex(s, env, this)
            return v
        if k == "IfStatement":
            if R.to_boolean(self.ev(st.test, env, this)):
                return self.ex(st.consequent, env, this)
            if st.alternate is not None:
                return self.ex(st.alternate, env, this)
            return UNDEF
        if k == "WhileStatement":
            while R.to_boolean(self.ev(st.test, env, this)):
                if self._loop_body(st.body, env, this, labels):
                    break
            return UNDEF
        if k == "DoWhileStatement":
            while True:
                if self._loop_body(st.body, env, this, labels):
                    break
                if not R.to_boolean(self.ev(st.test, env, this)):
                    break
            return UNDEF
        if k == "ForStatement":
            if st.init is not None:
                if type(st.init).__name__ == "VariableDeclaration":
                    self.ex(st.init, env, this)
                else:
                    self.ev(st.init, env, this)
            while st.test is None or R.to_boolean(self.ev(st.test, env, this)):
                if self._loop_body(st.body, env, this, labels):
                    break
                if st.update is not None:
                    self.ev(st.update, env, this)
            return UNDEF
        if k == "ForInStatement":
            o = self.ev(st.right, env, this)
            if o is UNDEF or o is NULL:
                return UNDEF
            if not isinstance(o, RObj):
                raise Unsupported("for-in over a primitive")
            for key in self.own_keys(o):
                if not self.has_own(o, key):
                    continue
                self._bind_loop_var(st.left, key, env, this)
                if self._loop_body(st.body, env, this, labels):
                    break
            return UNDEF
        if k == "ForOfStatement":
            o = self.ev(st.right, env, this)
            if isinstance(o, RArr):
                i = 0
                while i < len(o.elems):
                    self._bind_loop_var(st.left, o.elems[i], env, this)
                    if self._loop_body(st.body, env, this, labels):
                        break
                    i += 1
                return UNDEF
            if isinstance(o, str):
                for ch in o:
                    self._bind_loop_var(st.left, ch, env, this)
                    if self._loop_body(st.body, env, this, labels):
                        break
                return UNDEF
            raise Unsupported("for-of over a non-array")
        if k == "BreakStatement":
            raise BreakEx(st.label.name if st.label is not None else None)
        if k == "ContinueStatement":
            raise ContinueEx(st.label.name if st.label is not None else None)
        if k == "ReturnStatement":
            raise ReturnEx(self.ev(st.argument, env, this) if st.argument is not None else UNDEF)
        if k == "ThrowStatement":
            raise ThrowEx(self.ev(st.argument, env, this))
        if k == "LabeledStatement":
            name = st.label.name
            body_kind = type(st.body).__name__
            try:
                if body_kind in ("WhileStatement", "DoWhileStatement", "ForStatement", "ForInStatement",
                                 "ForOfStatement", "LabeledStatement"):
                    return self.ex(st.body, env, this, labels + (name,))
                return self.ex(st.body, env, this)
            except BreakEx as b:
                if b.label == name:
                    return UNDEF
                raise
        if k == "SwitchStatement":
            d = self.ev(st.discriminant, env, this)
            start = None
            for i, c in enumerate(st.cases):
                if c.test is not None and self.strict_equals(d, self.ev(c.test, env, this)):
                    start = i
                    break
            if start is None:
                for i, c in enumerate(st.cases):
                    if c.test is None:
                        start = i
                        break
            if start is None:
                return UNDEF
            try:
                for c in st.cases[start:]:
                    for s in c.consequent:
                        self.ex(s, env, this)
            except BreakEx as b:
                if b.label is not None:
                    raise
            return UNDEF
        if k == "TryStatement":
            try:
                try:
                    self.ex(st.block, env, this)
                except ThrowEx as t:
                    if st.handler is None:
                        raise
                    cenv = env
                    if st.handler.param is not None:
                        # the engine binds the catch parameter as a function-scoped variable
                        self.assign_name(st.handler.param.name, t.value, env, declare=True)
                    self.ex(st.handler.body, cenv, this)
            finally:
                if st.finalizer is not None:
                    # an abrupt completion of the finally block overrides the pending one
                    self.ex(st.finalizer, env, this)
            return UNDEF
        raise Unsupported("statement " + k)

    def _loop_body(self, body, env, this, labels):
        """Run one iteration; True = leave the loop."""
        self.tick()
        try:
            self.ex(body, env, this)
        except BreakEx as b:
            if b.label is None:
                return True
            raise
        except ContinueEx as c:
            if c.label is None or c.label in labels:
                return False
            raise
        return False

    def _bind_loop_var(self, left, value, env, this):
        k = type(left).__name__
        if k == "VariableDeclaration":
            self.assign_name(left.declarations[0].id.name, value, env, declare=True)
        elif k == "Identifier":
            self.assign_name(left.name, value, env)
        elif k == "MemberExpression":
            base = self.ev(left.object, env, this)
            key = self.to_key(self.ev(left.property, env, this)) if left.computed else left.property.name
            self.put(base, key, value)
        else:
            raise Unsupported("loop target " + k)

    def assign_name(self, name, value, env, declare=False):
        e = env.lookup(name)
        if e is None:
            if declare:
                env.vars[name] = value
                return
            # the engine creates the global on assignment (sloppy-style); strict ES would throw
            # ReferenceError.  Skeletons always declare their variables, so this is not exercised.
            raise Unsupported("assignment to an undeclared variable")
        e.vars[name] = value

    # ------------------------------------------------------------------ expressions
    def ev(self, n, env, this):
        self.tick()
        k = type(n).__name__
        if k == "NumericLiteral":
            return n.value
        if k == "StringLiteral":
            return n.value
        if k == "BooleanLiteral":
            return n.value
        if k == "NullLiteral":
            return NULL
        if k == "Identifier":
            e = env.lookup(n.name)
            if e is None:
                self.throw_error("ReferenceError", "%s is not defined" % n.name)
            return e.vars[n.name]
        if k == "ThisExpression":
            return this
        if k == "ArrayExpression":
            return self.new_array([self.ev(e, env, this) for e in n.elements])
        if k == "ObjectExpression":
            o = RObj(self.object_proto)
            for p in n.properties:
                if p.computed:
                    key = self.to_key(self.ev(p.key, env, this))
                else:
                    kk = type(p.key).__name__
                    key = p.key.name if kk == "Identifier" else self.to_key(p.key.value)
                if p.kind == "init":
                    v = self.ev(p.value, env, this)
                    if isinstance(v, RFun) and v.name == "" and v.kind == "script":
                        v.name = key
                    if key == "__proto__" and not p.computed:
                        if v is NULL:
                            o.proto = None
                        elif isinstance(v, RObj):
                            o.proto = v
                        continue
                    o.props[key] = ("data", v)
                else:
                    f = self.ev(p.value, env, this)
                    old = o.props.get(key)
                    g, s = (old[1], old[2]) if old is not None and old[0] == "acc" else (None, None)
                    if p.kind == "get":
                        g = f
                    else:
                        s = f
                    o.props[key] = ("acc", g, s)
            return o
        if k in ("FunctionExpression", "ArrowFunctionExpression"):
            return self.make_function(n, env, this)
        if k == "UnaryExpression":
            op = n.operator
            if op == "typeof":
                if type(n.argument).__name__ == "Identifier" and env.lookup(n.argument.name) is None:
                    return "undefined"
                v = self.ev(n.argument, env, this)
                if isinstance(v, RFun):
                    return "function"
                if isinstance(v, RObj):
                    return "object"
                return R.typeof(v)
            if op == "delete":
                a = n.argument
                if type(a).__name__ == "MemberExpression":
                    base = self.ev(a.object, env, this)
                    key = self.to_key(self.ev(a.property, env, this)) if a.computed else a.property.name
                    return self.delete(base, key)
                raise Unsupported("delete of a non-member")
            v = self.ev(n.argument, env, this)
            if op == "void":
                return UNDEF
            if op == "!":
                return not R.to_boolean(v)
            v = self.to_primitive(v, "number")
            return R.unop({"-": "NEG", "+": "POS", "~": "BNOT"}[op], v)
        if k == "UpdateExpression":
            ref = self.ref(n.argument, env, this)
            old = R.to_number(self.to_primitive(self.ref_get(ref), "number"))
            new = R.num_add(old, 1) if n.operator == "++" else R.num_sub(old, 1)
            self.ref_put(ref, new)
            return new if n.prefix else old
        if k == "BinaryExpression":
            a = self.ev(n.left, env, this)
            b = self.ev(n.right, env, this)
            return self.binary(n.operator, a, b)
        if k == "LogicalExpression":
            a = self.ev(n.left, env, this)
            if n.operator == "&&":
                return self.ev(n.right, env, this) if R.to_boolean(a) else a
            if n.operator == "||":
                return a if R.to_boolean(a) else self.ev(n.right, env, this)
            raise Unsupported("logical " + n.operator)
        if k == "ConditionalExpression":
            if R.to_boolean(self.ev(n.test, env, this)):
                return self.ev(n.consequent, env, this)
            return self.ev(n.alternate, env, this)
        if k == "AssignmentExpression":
            ref = self.ref(n.left, env, this)
            if n.operator == "=":
                v = self.ev(n.right, env, this)
                if type(n.right).__name__ in ("FunctionExpression", "ArrowFunctionExpression") \
                        and isinstance(v, RFun) and v.name == "" and ref[0] == "name":
                    v.name = ref[1]
            else:
                old = self.ref_get(ref)
                rhs = self.ev(n.right, env, this)
                v = self.binary(n.operator[:-1], old, rhs)
            self.ref_put(ref, v)
            return v
        if k == "SequenceExpression":
            v = UNDEF
            for e in n.expressions:
                v = self.ev(e, env, this)
            return v
        if k == "MemberExpression":
            base = self.ev(n.object, env, this)
            key = self.to_key(self.ev(n.property, env, this)) if n.computed else n.property.name
            return self.get(base, key)
        if k == "CallExpression":
            c = n.callee
            if type(c).__name__ == "MemberExpression":
                base = self.ev(c.object, env, this)
                key = self.to_key(self.ev(c.property, env, this)) if c.computed else c.property.name
                f = self.get(base, key)
                t = base
            else:
                f = self.ev(c, env, this)
                t = UNDEF
            args = [self.ev(a, env, this) for a in n.arguments]
            return self.call(f, t, args)
        if k == "NewExpression":
            f = self.ev(n.callee, env, this)
            args = [self.ev(a, env, this) for a in n.arguments]
            return self.construct(f, args)
        raise Unsupported("expression " + k)

    def binary(self, op, a, b):
        if op == "instanceof":
            return self.instance_of(a, b)
        if op == "in":
            if not isinstance(b, RObj):
                self.throw_error("TypeError", "Cannot use 'in' operator to search in a non-object")
            return self.has_property(b, self.to_key(a))
        if op in ("===", "!=="):
            r = self.strict_equals(a, b)
            return r if op == "===" else not r
        if op in ("==", "!="):
            r = self.loose_equals(a, b)
            return r if op == "==" else not r
        names = {"+": "ADD", "-": "SUB", "*": "MUL", "/": "DIV", "%": "MOD", "**": "POW", "&": "BAND", "|": "BOR",
                 "^": "BXOR", "<<": "SHL", ">>": "SHR", ">>>": "USHR", "<": "LT", "<=": "LE", ">": "GT", ">=": "GE"}
        if op == "+":
            a, b = self.to_primitive(a), self.to_primitive(b)
        else:
            a, b = self.to_primitive(a, "number"), self.to_primitive(b, "number")
        r = R.binop(names[op], a, b)
        if r is R.UNSPEC:
            raise Unspecified("operator value not transcribed")
        return r

    # references -------------------------------------------------------------------------
    def ref(self, n, env, this):
        k = type(n).__name__
        if k == "Identifier":
            return ("name", n.name, env)
        if k == "MemberExpression":
            base = self.ev(n.object, env, this)
            key = self.to_key(self.ev(n.property, env, this)) if n.computed else n.property.name
            return ("prop", base, key)
        raise Unsupported("assignment target " + k)

    def ref_get(self, ref):
        if ref[0] == "name":
            e = ref[2].lookup(ref[1])
            if e is None:
                self.throw_error("ReferenceError", "%s is not defined" % ref[1])
            return e.vars[ref[1]]
        return self.get(ref[1], ref[2])

    def ref_put(self, ref, v):
        if ref[0] == "name":
            e = ref[2].lookup(ref[1])
            if e is None:
                # engine: assignment creates a global
                self.globals[ref[1]] = v
                return
            e.vars[ref[1]] = v
        else:
            self.put(ref[1], ref[2], v)
