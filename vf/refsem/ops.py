"""ECMAScript operators on primitive values (ECMA-262 13.5-13.15, 7.1, 7.2), numbers as doubles.

Values: UNDEF / NULL sentinels, bool, float (numbers are *only* floats here), str.
Nothing in this module calls into C-level code that would realise a symbolic value.
"""
import math

from .num import to_number_str, number_to_string, UNDEF, NULL, Unspecified, is_concrete

NAN = float("nan")
INF = float("inf")


def is_neg(x):
    return math.copysign(1.0, x) < 0


# Numbers: a refsem number is a Python float (a double) or a Python int n, which stands for the
# double whose value is exactly n.  The int form exists only so that integer-only harnesses stay in
# linear integer arithmetic for the solver; every operation below gives the same double either way.
TWO53 = 9007199254740992


def is_num(v):
    return isinstance(v, (int, float)) and not isinstance(v, bool)


def _conc(*xs):
    return all(is_concrete(x) for x in xs)


def as_float(x):
    """The double denoted by a refsem number."""
    if isinstance(x, float):
        return x
    if is_concrete(x):
        return float(x)
    raise Unspecified("int->double conversion of a symbolic integer")


def rn_int(s):
    """Round the exact integer s (|s| <= 2**54) to the nearest double, ties to even; as exact int."""
    if -TWO53 <= s <= TWO53:
        return s
    if not (-2 * TWO53 <= s <= 2 * TWO53):
        if is_concrete(s):
            return int(float(s))
        raise Unspecified("integer beyond 2**54")
    if s % 2 == 0:
        return s
    return s + 1 if (s + 1) % 4 == 0 else s - 1


# ---- 7.1 conversions -----------------------------------------------------------------
def to_number(v):
    if v is UNDEF:
        return NAN
    if v is NULL:
        return 0
    if isinstance(v, bool):
        return 1 if v else 0
    if isinstance(v, (int, float)):
        return v
    if isinstance(v, str):
        return to_number_str(v)
    raise TypeError("refsem.to_number: %r" % (v,))


def to_boolean(v):
    if v is UNDEF or v is NULL:
        return False
    if isinstance(v, bool):
        return v
    if isinstance(v, (int, float)):
        return not (v != v or v == 0)
    if isinstance(v, str):
        return len(v) > 0
    return True


def to_string(v):
    if v is UNDEF:
        return "undefined"
    if v is NULL:
        return "null"
    if isinstance(v, bool):
        return "true" if v else "false"
    if isinstance(v, int):
        return str(v) if abs(v) < 10 ** 21 else number_to_string(as_float(v))
    if isinstance(v, float):
        return number_to_string(v)
    return v


def to_int32(x):
    """7.1.6 (x: refsem number) -> Python int."""
    if isinstance(x, float):
        if x != x or math.isinf(x) or x == 0:
            return 0
        n = int(x)                      # truncate toward zero
    else:
        n = x
    n = n % 4294967296
    return n - 4294967296 if n >= 2147483648 else n


def to_uint32(x):
    if isinstance(x, float):
        if x != x or math.isinf(x) or x == 0:
            return 0
        return int(x) % 4294967296
    return x % 4294967296


def typeof(v):
    if v is UNDEF:
        return "undefined"
    if v is NULL:
        return "object"
    if isinstance(v, bool):
        return "boolean"
    if isinstance(v, (int, float)):
        return "number"
    if isinstance(v, str):
        return "string"
    return "object"


# ---- Number:: operations (6.1.6.1) ------------------------------------------------------
UNSPEC = object()     # "value not transcribed here" (only type/totality are judged)


def num_add(x, y):
    if isinstance(x, int) and isinstance(y, int):
        return rn_int(x + y)
    return as_float(x) + as_float(y)


def num_sub(x, y):
    if isinstance(x, int) and isinstance(y, int):
        return rn_int(x - y)
    return as_float(x) - as_float(y)


def num_mul(x, y):
    if isinstance(x, int) and isinstance(y, int) and not _conc(x, y):
        p = x * y
        if -TWO53 <= p <= TWO53:
            return p
        raise Unspecified("symbolic integer product beyond 2**53")
    return as_float(x) * as_float(y)


def num_div(x, y):
    if isinstance(x, int) and isinstance(y, int) and not _conc(x, y):
        if y == 0:
            return NAN if x == 0 else (INF if x > 0 else -INF)
        if x % y == 0:
            return x // y if x * y >= 0 else -(abs(x) // abs(y))
        raise Unspecified("inexact symbolic integer quotient")
    a, b = as_float(x), as_float(y)
    if b == 0:
        if a != a or a == 0:
            return NAN
        return -INF if (is_neg(a) != is_neg(b)) else INF
    return a / b


def num_mod(x, y):
    """Number::remainder.  Exact where it can be stated without fmod; UNSPEC otherwise."""
    if isinstance(x, int) and isinstance(y, int):
        if y == 0:
            return NAN
        r = abs(x) % abs(y)
        if x < 0:
            return -0.0 if r == 0 else -r
        return r
    if _conc(x, y):
        a, b = float(x), float(y)
        if a != a or b != b or math.isinf(a) or b == 0:
            return NAN
        if math.isinf(b):
            return a
        return math.fmod(a, b)      # fmod is exact
    a, b = as_float(x), as_float(y)
    if a != a or b != b or math.isinf(a) or b == 0:
        return NAN
    if math.isinf(b):
        return a
    if a == 0:
        return a
    if abs(a) < abs(b):
        return a
    return UNSPEC


def _is_odd_integer(b):
    if isinstance(b, int):
        return b % 2 == 1
    if abs(b) >= 9007199254740992.0:
        return False
    return b == math.trunc(b) and int(b) % 2 == 1


def _is_integer(b):
    if isinstance(b, int):
        return True
    return abs(b) >= 9007199254740992.0 or b == math.trunc(b)


def num_pow(x, y):
    """Number::exponentiate at the specified special points; UNSPEC elsewhere (libm)."""
    if _conc(x, y):
        a, b = float(x), float(y)
    else:
        a, b = x, y
    if b != b:
        return NAN
    if b == 0:
        return 1
    if a != a:
        return NAN
    if isinstance(b, float) and math.isinf(b):
        if abs(a) == 1:
            return NAN
        if abs(a) > 1:
            return INF if b > 0 else 0
        return 0 if b > 0 else INF
    if isinstance(a, float) and math.isinf(a):
        if a > 0:
            return INF if b > 0 else 0
        if b > 0:
            return -INF if _is_odd_integer(b) else INF
        return -0.0 if _is_odd_integer(b) else 0
    if a == 0:
        neg0 = isinstance(a, float) and is_neg(a)
        if not neg0:
            return 0 if b > 0 else INF
        if b > 0:
            return -0.0 if _is_odd_integer(b) else 0
        return -INF if _is_odd_integer(b) else INF
    if a < 0 and not _is_integer(b):
        return NAN
    if b == 1:
        return a
    if _conc(a, b):
        try:
            return math.pow(a, b)       # trusted libm away from the special points
        except OverflowError:
            return INF if (a > 0 or not _is_odd_integer(b)) else -INF
        except ValueError:
            return NAN
    return UNSPEC


# ---- binary operators on primitives ---------------------------------------------------------
def add(a, b):
    if isinstance(a, str) or isinstance(b, str):
        return to_string(a) + to_string(b)
    return num_add(to_number(a), to_number(b))


def _shift_count(b):
    return to_uint32(to_number(b)) % 32


def _i32(n):
    n = n % 4294967296
    return n - 4294967296 if n >= 2147483648 else n


def less_than(a, b):
    """IsLessThan(a, b) for primitives: True / False / None (undefined = unordered)."""
    if isinstance(a, str) and isinstance(b, str):
        return a < b            # code-unit order == code-point order for BMP-only strings
    x, y = to_number(a), to_number(b)
    if x != x or y != y:
        return None
    return x < y                # exact for int/int, int/float and float/float


def strict_equals(a, b):
    if typeof(a) != typeof(b) or (a is NULL) != (b is NULL):
        return False
    if is_num(a):
        return a == b           # NaN != NaN, +0 == -0
    if a is UNDEF or a is NULL:
        return True
    return a == b


def loose_equals(a, b):
    if typeof(a) == typeof(b) and (a is NULL) == (b is NULL):
        return strict_equals(a, b)
    if (a is NULL or a is UNDEF) and (b is NULL or b is UNDEF):
        return True
    if a is NULL or a is UNDEF or b is NULL or b is UNDEF:
        return False
    if is_num(a) and isinstance(b, str):
        return a == to_number(b)
    if isinstance(a, str) and is_num(b):
        return to_number(a) == b
    if isinstance(a, bool):
        return loose_equals(to_number(a), b)
    if isinstance(b, bool):
        return loose_equals(a, to_number(b))
    return False


def binop(op, a, b):
    """op is the engine's opcode name."""
    if op == "ADD":
        return add(a, b)
    if op in ("SUB", "MUL", "DIV", "MOD", "POW"):
        x, y = to_number(a), to_number(b)
        if op == "SUB":
            return num_sub(x, y)
        if op == "MUL":
            return num_mul(x, y)
        if op == "DIV":
            return num_div(x, y)
        if op == "MOD":
            return num_mod(x, y)
        return num_pow(x, y)
    if op in ("BAND", "BOR", "BXOR"):
        x, y = to_int32(to_number(a)), to_int32(to_number(b))
        return (x & y) if op == "BAND" else (x | y) if op == "BOR" else (x ^ y)
    if op == "SHL":
        return _i32(to_int32(to_number(a)) * 2 ** _shift_count(b))
    if op == "SHR":
        return to_int32(to_number(a)) // 2 ** _shift_count(b)
    if op == "USHR":
        return to_uint32(to_number(a)) // 2 ** _shift_count(b)
    if op == "LT":
        return less_than(a, b) is True
    if op == "GT":
        return less_than(b, a) is True
    if op == "LE":
        return less_than(b, a) is False
    if op == "GE":
        return less_than(a, b) is False
    if op == "EQ":
        return loose_equals(a, b)
    if op == "NE":
        return not loose_equals(a, b)
    if op == "SEQ":
        return strict_equals(a, b)
    if op == "SNE":
        return not strict_equals(a, b)
    raise KeyError(op)


def unop(op, a):
    if op == "NEG":
        x = to_number(a)
        if isinstance(x, int):
            return -0.0 if x == 0 else -x
        return -x
    if op == "POS":
        return to_number(a)
    if op == "NOT":
        return not to_boolean(a)
    if op == "BNOT":
        return -to_int32(to_number(a)) - 1
    if op == "TYPEOF":
        return typeof(a)
    if op == "INC":
        return num_add(to_number(a), 1)
    if op == "DEC":
        return num_sub(to_number(a), 1)
    raise KeyError(op)
