"""String.prototype methods the engine implements, transcribed from ECMA-262 22.1.3 (code-point strings;
receivers with characters beyond the BMP are excluded by the harness: the engine documents code-point
storage and the UTF-16 length difference is a recorded finding)."""
import math

from . import ops as R
from .num import UNDEF, NULL, Unspecified, is_ws

INF = float("inf")


class Throw(Exception):
    def __init__(self, name):
        self.name = name


def to_int_or_inf(v):
    """ToIntegerOrInfinity on a refsem primitive -> Python int, or +-INF."""
    n = R.to_number(v)
    if isinstance(n, int):
        return n
    if n != n:
        return 0
    if math.isinf(n):
        return n
    return int(n)


def clamp(p, lo, hi):
    if p < lo:
        return lo
    if p > hi:
        return hi
    return int(p)


def _find_from(s, search, start):
    n, m = len(s), len(search)
    k = start
    while k + m <= n:
        if s[k:k + m] == search:
            return k
        k += 1
    return -1


def char_at(s, args):
    p = to_int_or_inf(args[0] if args else UNDEF)
    if p < 0 or p >= len(s):
        return ""
    return s[int(p)]


def char_code_at(s, args):
    p = to_int_or_inf(args[0] if args else UNDEF)
    if p < 0 or p >= len(s):
        return float("nan")
    return ord(s[int(p)])


def index_of(s, args):
    search = R.to_string(args[0] if args else UNDEF)
    pos = to_int_or_inf(args[1] if len(args) > 1 else UNDEF)
    return _find_from(s, search, clamp(pos, 0, len(s)))


def last_index_of(s, args):
    search = R.to_string(args[0] if args else UNDEF)
    num = R.to_number(args[1] if len(args) > 1 else UNDEF)
    pos = INF if (isinstance(num, float) and num != num) else to_int_or_inf(num)
    start = clamp(pos, 0, len(s))
    m = len(search)
    k = min(start, len(s) - m)
    while k >= 0:
        if s[k:k + m] == search:
            return k
        k -= 1
    return -1


def substring(s, args):
    n = len(s)
    a = to_int_or_inf(args[0] if args else UNDEF)
    e = args[1] if len(args) > 1 else UNDEF
    b = n if e is UNDEF else to_int_or_inf(e)
    fa, fb = clamp(a, 0, n), clamp(b, 0, n)
    lo, hi = (fa, fb) if fa <= fb else (fb, fa)
    return s[lo:hi]


def _rel(p, n):
    if p == -INF:
        return 0
    if p < 0:
        return max(n + int(p), 0)
    if p == INF:
        return n
    return min(int(p), n)


def slice_(s, args):
    n = len(s)
    a = to_int_or_inf(args[0] if args else UNDEF)
    e = args[1] if len(args) > 1 else UNDEF
    lo = _rel(a, n)
    hi = n if e is UNDEF else _rel(to_int_or_inf(e), n)
    if lo >= hi:
        return ""
    return s[lo:hi]


def split(s, args):
    sep = args[0] if args else UNDEF
    lim_v = args[1] if len(args) > 1 else UNDEF
    lim = 2 ** 32 - 1 if lim_v is UNDEF else R.to_uint32(R.to_number(lim_v))
    r = UNDEF if sep is UNDEF else R.to_string(sep)
    if lim == 0:
        return []
    if sep is UNDEF:
        return [s]
    if len(s) == 0:
        return [] if r == "" else [s]
    if r == "":
        out = [ch for ch in s]
        return out[:lim]
    out = []
    i = 0
    j = _find_from(s, r, 0)
    while j != -1:
        out.append(s[i:j])
        if len(out) >= lim:
            return out
        i = j + len(r)
        j = _find_from(s, r, i)
    out.append(s[i:])
    return out


def _ascii_only(s):
    for ch in s:
        if ord(ch) > 127:
            return False
    return True


def to_lower(s, args):
    if not _ascii_only(s):
        raise Unspecified("case mapping beyond ASCII (documented engine restriction)")
    return "".join(chr(ord(c) + 32) if "A" <= c <= "Z" else c for c in s)


def to_upper(s, args):
    if not _ascii_only(s):
        raise Unspecified("case mapping beyond ASCII (documented engine restriction)")
    return "".join(chr(ord(c) - 32) if "a" <= c <= "z" else c for c in s)


def trim_start(s, args=()):
    i = 0
    while i < len(s) and is_ws(s[i]):
        i += 1
    return s[i:]


def trim_end(s, args=()):
    j = len(s)
    while j > 0 and is_ws(s[j - 1]):
        j -= 1
    return s[:j]


def trim(s, args=()):
    return trim_end(trim_start(s))


def concat(s, args):
    out = s
    for a in args:
        out = out + R.to_string(a)
    return out


def repeat(s, args):
    n = to_int_or_inf(args[0] if args else UNDEF)
    if n < 0 or n == INF:
        raise Throw("RangeError")
    return s * int(n)


def starts_with(s, args):
    search = R.to_string(args[0] if args else UNDEF)
    pos = to_int_or_inf(args[1] if len(args) > 1 else UNDEF)
    start = clamp(pos, 0, len(s))
    if len(search) + start > len(s):
        return False
    return s[start:start + len(search)] == search


def ends_with(s, args):
    search = R.to_string(args[0] if args else UNDEF)
    e = args[1] if len(args) > 1 else UNDEF
    end = len(s) if e is UNDEF else clamp(to_int_or_inf(e), 0, len(s))
    start = end - len(search)
    if start < 0:
        return False
    return s[start:end] == search


def includes(s, args):
    search = R.to_string(args[0] if args else UNDEF)
    pos = to_int_or_inf(args[1] if len(args) > 1 else UNDEF)
    return _find_from(s, search, clamp(pos, 0, len(s))) != -1


def to_string(s, args):
    return s


METHODS = {
    "charAt": char_at, "charCodeAt": char_code_at, "indexOf": index_of, "lastIndexOf": last_index_of,
    "substring": substring, "slice": slice_, "split": split, "toLowerCase": to_lower, "toUpperCase": to_upper,
    "trim": trim, "trimStart": trim_start, "trimEnd": trim_end, "concat": concat, "repeat": repeat,
    "startsWith": starts_with, "endsWith": ends_with, "includes": includes, "toString": to_string,
}
# (position-like argument count, search-string-like first argument?)
SHAPES = {
    "charAt": ("pos",), "charCodeAt": ("pos",), "indexOf": ("str", "pos"), "lastIndexOf": ("str", "pos"),
    "substring": ("pos", "pos"), "slice": ("pos", "pos"), "split": ("str", "lim"), "toLowerCase": (), "toUpperCase": (),
    "trim": (), "trimStart": (), "trimEnd": (), "concat": ("any", "any"), "repeat": ("count",),
    "startsWith": ("str", "pos"), "endsWith": ("str", "pos"), "includes": ("str", "pos"), "toString": (),
}
