"""Array.prototype methods the engine implements, transcribed from ECMA-262 23.1.3 on a list model.

Arrays are dense (the engine documents: no holes).  Elements are refsem primitives or RefArr (nested arrays,
compared by identity).  Callbacks are Python callables `cb(args) -> value`; the oracle calls them exactly as
the specification does (value, index, array) so that the caller can log and script them.
"""
import math

from . import ops as R
from .num import UNDEF, NULL, Unspecified
from .strings import to_int_or_inf, clamp

INF = float("inf")


class Throw(Exception):
    def __init__(self, name):
        self.name = name


class RefArr:
    def __init__(self, elems):
        self.elems = list(elems)


def is_callable(f):
    return callable(f)


def elem_to_string(e):
    if e is UNDEF or e is NULL:
        return ""
    if isinstance(e, RefArr):
        return join(e, [])
    return R.to_string(e)


def strict_eq(a, b):
    if isinstance(a, RefArr) or isinstance(b, RefArr):
        return a is b
    return R.strict_equals(a, b)


def same_value_zero(a, b):
    if isinstance(a, RefArr) or isinstance(b, RefArr):
        return a is b
    if R.is_num(a) and R.is_num(b):
        if a != a and b != b:
            return True
        return a == b
    return R.strict_equals(a, b)


def rel_index(v, n, default):
    """Relative index argument (slice/splice/indexOf...): undefined -> default."""
    if v is UNDEF:
        return default
    p = to_int_or_inf(v)
    if p == -INF:
        return 0
    if p < 0:
        return max(n + int(p), 0)
    if p == INF:
        return n
    return min(int(p), n)


def need_callable(f):
    if not is_callable(f):
        raise Throw("TypeError")


# ---- methods: fn(arr: RefArr, args: list) -> result (the receiver is mutated in place) --------------------
def push(a, args):
    a.elems.extend(args)
    return len(a.elems)


def pop(a, args):
    return a.elems.pop() if a.elems else UNDEF


def shift(a, args):
    return a.elems.pop(0) if a.elems else UNDEF


def unshift(a, args):
    a.elems[0:0] = list(args)
    return len(a.elems)


def join(a, args):
    sep = "," if (not args or args[0] is UNDEF) else R.to_string(args[0])
    return sep.join(elem_to_string(e) for e in a.elems)


def to_string(a, args):
    return join(a, [])


def _arg(args, i):
    return args[i] if len(args) > i else UNDEF


def map_(a, args):
    f = _arg(args, 0)
    need_callable(f)
    n = len(a.elems)
    out = []
    k = 0
    while k < n:
        if k < len(a.elems):
            out.append(f([a.elems[k], k, a]))
        k += 1
    return RefArr(out)


def filter_(a, args):
    f = _arg(args, 0)
    need_callable(f)
    n = len(a.elems)
    out = []
    k = 0
    while k < n:
        if k < len(a.elems):
            v = a.elems[k]
            if R.to_boolean(f([v, k, a])):
                out.append(v)
        k += 1
    return RefArr(out)


def for_each(a, args):
    f = _arg(args, 0)
    need_callable(f)
    n = len(a.elems)
    k = 0
    while k < n:
        if k < len(a.elems):
            f([a.elems[k], k, a])
        k += 1
    return UNDEF


def some(a, args):
    f = _arg(args, 0)
    need_callable(f)
    n = len(a.elems)
    k = 0
    while k < n:
        if k < len(a.elems) and R.to_boolean(f([a.elems[k], k, a])):
            return True
        k += 1
    return False


def every(a, args):
    f = _arg(args, 0)
    need_callable(f)
    n = len(a.elems)
    k = 0
    while k < n:
        if k < len(a.elems) and not R.to_boolean(f([a.elems[k], k, a])):
            return False
        k += 1
    return True


def find(a, args):
    f = _arg(args, 0)
    need_callable(f)
    n = len(a.elems)
    k = 0
    while k < n:
        v = a.elems[k] if k < len(a.elems) else UNDEF
        if R.to_boolean(f([v, k, a])):
            return v
        k += 1
    return UNDEF


def find_index(a, args):
    f = _arg(args, 0)
    need_callable(f)
    n = len(a.elems)
    k = 0
    while k < n:
        v = a.elems[k] if k < len(a.elems) else UNDEF
        if R.to_boolean(f([v, k, a])):
            return k
        k += 1
    return -1


def reduce(a, args):
    f = _arg(args, 0)
    need_callable(f)
    n = len(a.elems)
    k = 0
    if len(args) >= 2:
        acc = args[1]
    else:
        if n == 0:
            raise Throw("TypeError")
        acc = a.elems[0]
        k = 1
    while k < n:
        if k < len(a.elems):
            acc = f([acc, a.elems[k], k, a])
        k += 1
    return acc


def reduce_right(a, args):
    f = _arg(args, 0)
    need_callable(f)
    n = len(a.elems)
    k = n - 1
    if len(args) >= 2:
        acc = args[1]
    else:
        if n == 0:
            raise Throw("TypeError")
        acc = a.elems[k]
        k -= 1
    while k >= 0:
        if k < len(a.elems):
            acc = f([acc, a.elems[k], k, a])
        k -= 1
    return acc


def index_of(a, args):
    n = len(a.elems)
    if n == 0:
        return -1
    x = _arg(args, 0)
    p = to_int_or_inf(_arg(args, 1))
    if p == INF:
        return -1
    k = 0 if p == -INF else (int(p) if p >= 0 else max(n + int(p), 0))
    while k < n:
        if strict_eq(a.elems[k], x):
            return k
        k += 1
    return -1


def last_index_of(a, args):
    n = len(a.elems)
    if n == 0:
        return -1
    x = _arg(args, 0)
    p = to_int_or_inf(args[1]) if len(args) > 1 else n - 1
    if p == -INF:
        return -1
    k = min(int(p) if p != INF else n - 1, n - 1) if p >= 0 else n + int(p)
    while k >= 0:
        if strict_eq(a.elems[k], x):
            return k
        k -= 1
    return -1


def includes(a, args):
    n = len(a.elems)
    if n == 0:
        return False
    x = _arg(args, 0)
    p = to_int_or_inf(_arg(args, 1))
    if p == INF:
        return False
    k = 0 if p == -INF else (int(p) if p >= 0 else max(n + int(p), 0))
    while k < n:
        if same_value_zero(a.elems[k], x):
            return True
        k += 1
    return False


def concat(a, args):
    out = list(a.elems)
    for x in args:
        if isinstance(x, RefArr):
            out.extend(x.elems)
        else:
            out.append(x)
    return RefArr(out)


def slice_(a, args):
    n = len(a.elems)
    lo = rel_index(_arg(args, 0), n, 0)
    hi = rel_index(_arg(args, 1), n, n)
    return RefArr(a.elems[lo:hi] if lo < hi else [])


def splice(a, args):
    n = len(a.elems)
    start = rel_index(_arg(args, 0), n, 0)
    if len(args) == 0:
        dc = 0
    elif len(args) == 1:
        dc = n - start
    else:
        d = to_int_or_inf(args[1])
        dc = clamp(d, 0, n - start)
    items = list(args[2:])
    removed = a.elems[start:start + dc]
    a.elems[start:start + dc] = items
    return RefArr(removed)


def reverse(a, args):
    a.elems.reverse()
    return a


def sort(a, args):
    """Array.prototype.sort with the default comparator or a consistent comparator (stable; undefined last)."""
    f = _arg(args, 0)
    if f is not UNDEF and not is_callable(f):
        raise Throw("TypeError")
    undef = [e for e in a.elems if e is UNDEF]
    rest = [e for e in a.elems if e is not UNDEF]

    def cmp(x, y):
        if f is not UNDEF:
            v = R.to_number(f([x, y]))
            if v != v:
                return 0
            return -1 if v < 0 else (1 if v > 0 else 0)
        sx, sy = elem_to_string(x) if isinstance(x, RefArr) else R.to_string(x), \
            elem_to_string(y) if isinstance(y, RefArr) else R.to_string(y)
        return -1 if sx < sy else (1 if sx > sy else 0)
    # insertion sort: stable, calls cmp only on adjacent candidates
    out = []
    for e in rest:
        i = len(out)
        while i > 0 and cmp(out[i - 1], e) > 0:
            i -= 1
        out.insert(i, e)
    a.elems[:] = out + undef
    return a


METHODS = {
    "push": push, "pop": pop, "shift": shift, "unshift": unshift, "toString": to_string, "join": join, "map": map_,
    "filter": filter_, "reduce": reduce, "reduceRight": reduce_right, "forEach": for_each, "indexOf": index_of,
    "lastIndexOf": last_index_of, "find": find, "findIndex": find_index, "some": some, "every": every, "concat": concat,
    "slice": slice_, "splice": splice, "reverse": reverse, "includes": includes, "sort": sort,
}


# ---- typed array element conversions (7.1.6 - 7.1.12) -------------------------------------------------------
def to_int_n(x, bits, signed):
    """ToInt8/16/32, ToUint8/16/32 of a double or exact integer."""
    if isinstance(x, float):
        if x != x or math.isinf(x) or x == 0:
            return 0
        n = int(x)
    else:
        n = x
    m = 2 ** bits
    n = n % m
    if signed and n >= m // 2:
        n -= m
    return n


def to_uint8_clamp(x):
    if isinstance(x, float):
        if x != x:
            return 0
        if x <= 0:
            return 0
        if x >= 255:
            return 255
        f = int(x)                  # 0 < x < 255: truncation is floor
        if f + 0.5 < x:
            return f + 1
        if x < f + 0.5:
            return f
        return f if f % 2 == 0 else f + 1
    return 0 if x <= 0 else (255 if x >= 255 else x)
