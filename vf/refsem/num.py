"""ECMAScript number <-> string conversions (ECMA-262 7.1.4.1, 6.1.6.1.20, 19.2.4/19.2.5).

Written so that it stays symbolic under CrossHair for short strings / integer-valued numbers;
for concrete values (witness re-run, replay) the full algorithms are used, with the host's
shortest-digits `repr` and correctly rounded `float()` as the trusted digit generators.
"""
import math

from ..compat import NoTracing


class _Sentinel:
    def __init__(self, name):
        self.name = name

    def __repr__(self):
        return self.name


UNDEF = _Sentinel("undefined")
NULL = _Sentinel("null")
NAN = float("nan")
INF = float("inf")


class Unspecified(Exception):
    """The oracle does not transcribe this case (stated in the harness bounds)."""


def is_concrete(x):
    with NoTracing():
        return type(x) in (int, float, str, bool)


# StrWhiteSpaceChar = WhiteSpace + LineTerminator
WS = ("\t\n\v\f\r              "
      "    　﻿")
_WS_SET = frozenset(WS)


def is_ws(c):
    o = ord(c)
    if o < 0x80:
        return o == 0x20 or 0x09 <= o <= 0x0D
    return (o == 0xA0 or o == 0x1680 or 0x2000 <= o <= 0x200A or o == 0x2028 or o == 0x2029
            or o == 0x202F or o == 0x205F or o == 0x3000 or o == 0xFEFF)


def trim(s):
    i, j = 0, len(s)
    while i < j and is_ws(s[i]):
        i += 1
    while j > i and is_ws(s[j - 1]):
        j -= 1
    return s[i:j]


def digit_val(c):
    """Value of an ASCII alphanumeric as a digit (0-35) or -1."""
    o = ord(c)
    if 48 <= o <= 57:
        return o - 48
    if 97 <= o <= 122:
        return o - 87
    if 65 <= o <= 90:
        return o - 55
    return -1


def _scale(m, e10):
    """m * 10**e10 correctly rounded (m >= 0 integer)."""
    if m == 0:
        return 0.0
    if e10 >= 0:
        if e10 > 330:
            return INF
        return float(m * 10 ** e10)
    if e10 < -400:
        return 0.0
    if is_concrete(m) and is_concrete(e10):
        return float("%de%d" % (m, e10))
    return m / (10 ** (-e10))       # both operands exactly representable within the harness bounds


def _parse_decimal(s, allow_trailing):
    """StrDecimalLiteral at the start of s.  Returns (value or None, chars consumed)."""
    n = len(s)
    i = 0
    neg = False
    if i < n and (s[i] == "+" or s[i] == "-"):
        neg = s[i] == "-"
        i += 1
    if s[i:i + 8] == "Infinity":
        return (-INF if neg else INF), i + 8
    m = 0
    nd = 0
    frac = 0
    while i < n and 48 <= ord(s[i]) <= 57:
        m = m * 10 + (ord(s[i]) - 48)
        nd += 1
        i += 1
    if i < n and s[i] == ".":
        j = i + 1
        k = 0
        while j < n and 48 <= ord(s[j]) <= 57:
            m = m * 10 + (ord(s[j]) - 48)
            k += 1
            j += 1
        if nd + k == 0:
            return None, 0
        frac = k
        nd += k
        i = j
    if nd == 0:
        return None, 0
    e = 0
    if i < n and (s[i] == "e" or s[i] == "E"):
        j = i + 1
        eneg = False
        if j < n and (s[j] == "+" or s[j] == "-"):
            eneg = s[j] == "-"
            j += 1
        k = 0
        ev = 0
        while j < n and 48 <= ord(s[j]) <= 57:
            ev = ev * 10 + (ord(s[j]) - 48)
            k += 1
            j += 1
        if k > 0:
            e = -ev if eneg else ev
            i = j
        elif not allow_trailing:
            return None, 0
    v = _scale(m, e - frac)
    return (-v if neg else v), i


def to_number_str(s):
    """StringToNumber (7.1.4.1.1)."""
    t = trim(s)
    if len(t) == 0:
        return 0.0
    if len(t) > 2 and t[0] == "0" and t[1] in "xXoObB":
        base = 16 if t[1] in "xX" else 8 if t[1] in "oO" else 2
        v = 0
        for c in t[2:]:
            d = digit_val(c)
            if d < 0 or d >= base:
                return NAN
            v = v * base + d
        return float(v)
    v, used = _parse_decimal(t, False)
    if v is None or used != len(t):
        return NAN
    return v


def parse_float(s):
    """parseFloat (19.2.4): longest StrDecimalLiteral prefix of the trimmed string."""
    t = trim(s)
    v, used = _parse_decimal(t, True)
    if v is None:
        return NAN
    return v


def parse_int(s, radix):
    """parseInt (19.2.5) with radix already ToInt32'ed to a Python int (0 = missing/undefined)."""
    t = trim(s)
    neg = False
    if len(t) > 0 and (t[0] == "+" or t[0] == "-"):
        neg = t[0] == "-"
        t = t[1:]
    strip_prefix = True
    r = radix
    if r != 0:
        if r < 2 or r > 36:
            return NAN
        if r != 16:
            strip_prefix = False
    else:
        r = 10
    if strip_prefix and len(t) >= 2 and t[0] == "0" and (t[1] == "x" or t[1] == "X"):
        t = t[2:]
        r = 16
    v = 0
    k = 0
    for c in t:
        d = digit_val(c)
        if d < 0 or d >= r:
            break
        v = v * r + d
        k += 1
    if k == 0:
        return NAN
    f = float(v)
    if neg:
        return -f                   # "-0" -> -0
    return f


# ---- Number::toString(x, 10) ----------------------------------------------------------------
def digits_and_exponent(x):
    """(digits, n) with x = 0.digits * 10**n, shortest round-trip digits (host repr, trusted)."""
    from decimal import Decimal
    _sign, dig, exp = Decimal(repr(float(x))).as_tuple()
    dig = list(dig)
    while len(dig) > 1 and dig[-1] == 0:
        dig.pop()
        exp += 1
    return "".join(str(d) for d in dig), len(dig) + exp


def layout(digs, n, neg=False):
    """Number::toString layout from the k digits and the exponent n (6.1.6.1.20 steps 6-11)."""
    k = len(digs)
    if k <= n <= 21:
        out = digs + "0" * (n - k)
    elif 0 < n <= 21:
        out = digs[:n] + "." + digs[n:]
    elif -6 < n <= 0:
        out = "0." + "0" * (-n) + digs
    else:
        e = n - 1
        sign = "+" if e >= 0 else "-"
        if k == 1:
            out = digs + "e" + sign + str(abs(e))
        else:
            out = digs[0] + "." + digs[1:] + "e" + sign + str(abs(e))
    return "-" + out if neg else out


def number_to_string(x):
    if x != x:
        return "NaN"
    if x == 0:
        return "0"
    if math.isinf(x):
        return "Infinity" if x > 0 else "-Infinity"
    if is_concrete(x):
        d, n = digits_and_exponent(abs(x))
        return layout(d, n, x < 0)
    # symbolic: integer-valued doubles below 2**53 print as their decimal integer
    if abs(x) < 9007199254740992.0 and x == int(x):
        return str(int(x))
    raise Unspecified("Number::toString of a symbolic non-integer")


# ---- Number.prototype.toFixed / toExponential / toPrecision (21.1.3), exact rational arithmetic ------------
def _names(x):
    if x != x:
        return "NaN"
    if x == INF:
        return "Infinity"
    if x == -INF:
        return "-Infinity"
    return None


def _round_half_up(fr):
    """Nearest integer to the non-negative Fraction fr, ties to the larger."""
    from fractions import Fraction
    n = fr.numerator // fr.denominator
    if fr - n >= Fraction(1, 2):
        n += 1
    return n


def to_fixed(x, f):
    from fractions import Fraction
    if _names(x):
        return _names(x)
    x = float(x)
    if abs(x) >= 1e21:
        return number_to_string(x)
    neg = x < 0
    n = _round_half_up(Fraction(abs(x)) * 10 ** f)
    s = str(n)
    if f:
        s = s.rjust(f + 1, "0")
        s = s[:-f] + "." + s[-f:]
    return ("-" if neg else "") + s


def _sci(x, f):
    """(digits, e): abs(x) ~ digits[0].digits[1:] x 10**e with f fraction digits, half up on ties."""
    from fractions import Fraction
    fr = Fraction(abs(float(x)))
    if fr == 0:
        return "0" * (f + 1), 0
    e = 0
    while fr >= Fraction(10) ** (e + 1):
        e += 1
    while fr < Fraction(10) ** e:
        e -= 1
    n = _round_half_up(fr / Fraction(10) ** (e - f))
    if n >= 10 ** (f + 1):
        e += 1
        n = _round_half_up(fr / Fraction(10) ** (e - f))
    return str(n).rjust(f + 1, "0"), e


def _exp_text(neg, digs, e):
    m = digs[0] + ("." + digs[1:] if len(digs) > 1 else "")
    return ("-" if neg else "") + m + "e" + ("+" if e >= 0 else "-") + str(abs(e))


def to_exponential(x, f=None):
    if _names(x):
        return _names(x)
    x = float(x)
    if f is None:
        if x == 0:
            return "0e+0"
        d, n = digits_and_exponent(abs(x))
        return _exp_text(x < 0, d, n - 1)
    digs, e = _sci(x, f)
    return _exp_text(x < 0, digs, e)


def to_precision(x, p=None):
    if p is None:
        return number_to_string(float(x)) if not _names(x) else _names(x)
    if _names(x):
        return _names(x)
    x = float(x)
    digs, e = _sci(x, p - 1)
    neg = x < 0
    if e < -6 or e >= p:
        return _exp_text(neg, digs, e)
    s = "-" if neg else ""
    if e >= 0:
        return s + digs[:e + 1] + ("." + digs[e + 1:] if digs[e + 1:] else "")
    return s + "0." + "0" * (-e - 1) + digs


def to_radix_string(x, radix):
    """Number::toString(x, radix) for integer-valued x (fractions are implementation-approximated)."""
    if _names(x):
        return _names(x)
    x = float(x)
    if x != int(x):
        raise Unspecified("non-integer in a radix other than 10")
    n = abs(int(x))
    if n == 0:
        return "0"
    ds = "0123456789abcdefghijklmnopqrstuvwxyz"
    out = ""
    while n:
        out = ds[n % radix] + out
        n //= radix
    return ("-" if x < 0 else "") + out
