"""Reference printer for the engine's AST: source text with the parentheses the ECMAScript grammar requires.

The printer is a transcription of the expression grammar of ECMA-262 13.1 - 13.16 (which production may appear as
which operand); it is the oracle for precedence and associativity: a tree printed by it and parsed by a conforming
parser gives the tree back.  It produces a token list, so that layout (the text between tokens) is a separate
parameter, and records the gaps in which ECMAScript forbids a line terminator (restricted productions).
"""
from microjs import ast_nodes as A

from . import num as N

# binding levels, higher binds tighter
COMMA, ASSIGN, LOR, LAND, BOR, BXOR, BAND, EQ, REL, SHIFT, ADD, MUL, EXP, UNARY, POSTFIX, CALL, MEMBER, PRIMARY = range(18)
BINARY_LEVEL = {
    "||": LOR, "&&": LAND, "|": BOR, "^": BXOR, "&": BAND,
    "==": EQ, "!=": EQ, "===": EQ, "!==": EQ,
    "<": REL, ">": REL, "<=": REL, ">=": REL, "in": REL, "instanceof": REL,
    "<<": SHIFT, ">>": SHIFT, ">>>": SHIFT, "+": ADD, "-": ADD, "*": MUL, "/": MUL, "%": MUL, "**": EXP,
}
BINARY_OPS = list(BINARY_LEVEL)
UNARY_OPS = ["-", "+", "!", "~", "typeof", "void", "delete"]
ASSIGN_OPS = ["=", "+=", "-=", "*=", "/=", "%=", "&=", "|=", "^=", "<<=", ">>=", ">>>="]
LINE_TERMINATORS = "\n\r\u2028\u2029"


def has_call(node):
    """Is this member chain a CallExpression in the grammar (a call somewhere along its object spine)?"""
    while True:
        if isinstance(node, A.CallExpression):
            return True
        if isinstance(node, A.MemberExpression):
            node = node.object
            continue
        return False


def level(node):
    if isinstance(node, A.SequenceExpression):
        return COMMA
    if isinstance(node, (A.AssignmentExpression, A.ConditionalExpression, A.ArrowFunctionExpression)):
        return ASSIGN
    if isinstance(node, (A.BinaryExpression, A.LogicalExpression)):
        return BINARY_LEVEL[node.operator]
    if isinstance(node, A.UnaryExpression):
        return UNARY
    if isinstance(node, A.UpdateExpression):
        return UNARY if node.prefix else POSTFIX
    if isinstance(node, A.CallExpression):
        return CALL
    if isinstance(node, A.MemberExpression):
        return CALL if has_call(node) else MEMBER
    if isinstance(node, A.NewExpression):
        return MEMBER
    return PRIMARY


def escape_string(value, quote='"'):
    out = [quote]
    for ch in value:
        o = ord(ch)
        if ch == quote or ch == "\\":
            out.append("\\" + ch)
        elif ch == "\n":
            out.append("\\n")
        elif ch == "\r":
            out.append("\\r")
        elif ch == "\t":
            out.append("\\t")
        elif o < 0x20 or o == 0x7F:
            out.append("\\x%02x" % o)
        elif ch in "\u2028\u2029" or 0xD800 <= o <= 0xDFFF:
            out.append("\\u%04x" % o)
        else:
            out.append(ch)
    out.append(quote)
    return "".join(out)


def number_text(value):
    if isinstance(value, bool) or not isinstance(value, (int, float)):
        raise ValueError("not a numeric literal value: %r" % (value,))
    if isinstance(value, float):
        if value != value or value in (float("inf"), float("-inf")) or value < 0 or (value == 0 and str(value)[0] == "-"):
            raise ValueError("no literal denotes %r" % value)
        return N.number_to_string(value)
    if value < 0:
        raise ValueError("no literal denotes %r" % value)
    return str(value)


class Printer:
    """tokens(node) -> list of token texts; self.noline = indices k with no line terminator allowed before token k."""

    def __init__(self, wrap_at=None):
        self.toks = []
        self.noline = set()
        # pre-order indices of the expression nodes to wrap in redundant parentheses (an int or a collection)
        self.wrap_at = () if wrap_at is None else ((wrap_at,) if isinstance(wrap_at, int) else tuple(wrap_at))
        self.n_expr = 0

    # ---- helpers
    def t(self, text, noline=False):
        if noline:
            self.noline.add(len(self.toks))
        self.toks.append(text)

    def name(self, ident):
        self.t(ident.name)

    def expr(self, node, min_level=COMMA, noline=False):
        idx = self.n_expr
        self.n_expr += 1
        need = level(node) < min_level
        extra = idx in self.wrap_at
        if need:
            self.t("(", noline)
            noline = False
        if extra:
            self.t("(", noline)
            noline = False
        self.bare(node, noline)
        if extra:
            self.t(")")
        if need:
            self.t(")")

    def expr_not_starting(self, node, min_level, starts):
        """Print an expression that must not begin with one of the tokens `starts` (statement/arrow-body position)."""
        mark = len(self.toks)
        self.expr(node, min_level)
        if self.toks[mark] in starts:
            self.toks.insert(mark, "(")
            self.noline = {k + 1 if k > mark else k for k in self.noline}
            self.t(")")

    def params(self, params):
        self.t("(")
        for i, p in enumerate(params):
            if i:
                self.t(",")
            self.name(p)
        self.t(")")

    def block(self, node):
        self.t("{")
        for s in node.body:
            self.stmt(s)
        self.t("}")

    # ---- expressions
    def bare(self, node, noline=False):
        t = self.t
        if isinstance(node, A.NumericLiteral):
            t(number_text(node.value), noline)
        elif isinstance(node, A.StringLiteral):
            t(escape_string(node.value), noline)
        elif isinstance(node, A.BooleanLiteral):
            t("true" if node.value else "false", noline)
        elif isinstance(node, A.NullLiteral):
            t("null", noline)
        elif isinstance(node, A.RegexLiteral):
            t("/" + node.pattern + "/" + node.flags, noline)
        elif isinstance(node, A.Identifier):
            t(node.name, noline)
        elif isinstance(node, A.ThisExpression):
            t("this", noline)
        elif isinstance(node, A.ArrayExpression):
            t("[", noline)
            for i, e in enumerate(node.elements):
                if i:
                    t(",")
                self.expr(e, ASSIGN)
            t("]")
        elif isinstance(node, A.ObjectExpression):
            t("{", noline)
            for i, p in enumerate(node.properties):
                if i:
                    t(",")
                self.prop(p)
            t("}")
        elif isinstance(node, A.FunctionExpression):
            t("function", noline)
            if node.id is not None:
                self.name(node.id)
            self.params(node.params)
            self.block(node.body)
        elif isinstance(node, A.ArrowFunctionExpression):
            if len(node.params) == 1 and getattr(self, "bare_arrow_param", False):
                t(node.params[0].name, noline)
            else:
                mark = len(self.toks)
                self.params(node.params)
                if noline:
                    self.noline.add(mark)
            t("=>", noline=True)
            if node.expression:
                self.expr_not_starting(node.body, ASSIGN, ("{",))
            else:
                self.block(node.body)
        elif isinstance(node, A.UnaryExpression):
            t(node.operator, noline)
            self.expr(node.argument, UNARY)
        elif isinstance(node, A.UpdateExpression):
            if node.prefix:
                t(node.operator, noline)
                self.expr(node.argument, UNARY)
            else:
                self.expr(node.argument, CALL, noline)
                t(node.operator, noline=True)
        elif isinstance(node, (A.BinaryExpression, A.LogicalExpression)):
            lv = BINARY_LEVEL[node.operator]
            if node.operator == "**":
                self.expr(node.left, POSTFIX, noline)     # UpdateExpression ** ExponentiationExpression
                t("**")
                self.expr(node.right, EXP)
            else:
                self.expr(node.left, lv, noline)
                t(node.operator)
                self.expr(node.right, lv + 1)
        elif isinstance(node, A.ConditionalExpression):
            self.expr(node.test, LOR, noline)
            t("?")
            self.expr(node.consequent, ASSIGN)
            t(":")
            self.expr(node.alternate, ASSIGN)
        elif isinstance(node, A.AssignmentExpression):
            self.expr(node.left, CALL, noline)
            t(node.operator)
            self.expr(node.right, ASSIGN)
        elif isinstance(node, A.SequenceExpression):
            for i, e in enumerate(node.expressions):
                if i:
                    t(",")
                self.expr(e, ASSIGN, noline and i == 0)
        elif isinstance(node, A.MemberExpression):
            if isinstance(node.object, A.NumericLiteral) and not node.computed:
                idx = self.n_expr
                self.n_expr += 1
                t("(", noline)
                if idx in self.wrap_at:
                    t("(")
                self.bare(node.object)
                if idx in self.wrap_at:
                    t(")")
                t(")")
            else:
                self.expr(node.object, CALL, noline)
            if node.computed:
                t("[")
                self.expr(node.property, COMMA)
                t("]")
            else:
                t(".")
                self.name(node.property)
        elif isinstance(node, A.CallExpression):
            self.expr(node.callee, CALL, noline)
            self.args(node.arguments)
        elif isinstance(node, A.NewExpression):
            t("new", noline)
            self.expr(node.callee, MEMBER)
            self.args(node.arguments)
        else:
            raise TypeError("cannot print %r" % type(node).__name__)

    def args(self, arguments):
        self.t("(")
        for i, a in enumerate(arguments):
            if i:
                self.t(",")
            self.expr(a, ASSIGN)
        self.t(")")

    def prop(self, p):
        t = self.t
        if p.kind in ("get", "set"):
            t(p.kind)
        if p.computed:
            t("[")
            self.expr(p.key, ASSIGN)
            t("]")
        elif isinstance(p.key, A.Identifier):
            t(p.key.name)
        elif isinstance(p.key, A.StringLiteral):
            t(escape_string(p.key.value))
        else:
            t(number_text(p.key.value))
        if p.kind in ("get", "set"):
            self.params(p.value.params)
            self.block(p.value.body)
        else:
            t(":")
            self.expr(p.value, ASSIGN)

    # ---- statements
    def declaration(self, node, exclude_in=False):
        self.t(node.kind)
        for i, d in enumerate(node.declarations):
            if i:
                self.t(",")
            self.name(d.id)
            if d.init is not None:
                self.t("=")
                self.for_init_expr(d.init, ASSIGN) if exclude_in else self.expr(d.init, ASSIGN)

    def for_init_expr(self, node, min_level=COMMA):
        """Expression in a for-statement head before the first ';': an unparenthesised `in` is not allowed there."""
        mark = len(self.toks)
        self.expr(node, min_level)
        depth = 0
        bare_in = False
        for tok in self.toks[mark:]:
            if tok in ("(", "[", "{"):
                depth += 1
            elif tok in (")", "]", "}"):
                depth -= 1
            elif tok == "in" and depth == 0:
                bare_in = True
        if bare_in:
            self.toks.insert(mark, "(")
            self.noline = {k + 1 if k > mark else k for k in self.noline}
            self.t(")")

    def stmt(self, node):
        t = self.t
        if isinstance(node, A.ExpressionStatement):
            self.expr_not_starting(node.expression, COMMA, ("{", "function"))
            t(";")
        elif isinstance(node, A.BlockStatement):
            self.block(node)
        elif isinstance(node, A.EmptyStatement):
            t(";")
        elif isinstance(node, A.VariableDeclaration):
            self.declaration(node)
            t(";")
        elif isinstance(node, A.IfStatement):
            t("if")
            t("(")
            self.expr(node.test)
            t(")")
            self.stmt(node.consequent)
            if node.alternate is not None:
                t("else")
                self.stmt(node.alternate)
        elif isinstance(node, A.WhileStatement):
            t("while")
            t("(")
            self.expr(node.test)
            t(")")
            self.stmt(node.body)
        elif isinstance(node, A.DoWhileStatement):
            t("do")
            self.stmt(node.body)
            t("while")
            t("(")
            self.expr(node.test)
            t(")")
            t(";")
        elif isinstance(node, A.ForStatement):
            t("for")
            t("(")
            if isinstance(node.init, A.VariableDeclaration):
                self.declaration(node.init, exclude_in=True)
            elif node.init is not None:
                self.for_init_expr(node.init)
            t(";")
            if node.test is not None:
                self.expr(node.test)
            t(";")
            if node.update is not None:
                self.expr(node.update)
            t(")")
            self.stmt(node.body)
        elif isinstance(node, (A.ForInStatement, A.ForOfStatement)):
            t("for")
            t("(")
            if isinstance(node.left, A.VariableDeclaration):
                t(node.left.kind)
                self.name(node.left.declarations[0].id)
            else:
                self.expr(node.left, CALL)
            t("in" if isinstance(node, A.ForInStatement) else "of")
            self.expr(node.right, COMMA if isinstance(node, A.ForInStatement) else ASSIGN)
            t(")")
            self.stmt(node.body)
        elif isinstance(node, (A.BreakStatement, A.ContinueStatement)):
            t("break" if isinstance(node, A.BreakStatement) else "continue")
            if node.label is not None:
                t(node.label.name, noline=True)
            t(";")
        elif isinstance(node, A.ReturnStatement):
            t("return")
            if node.argument is not None:
                self.expr(node.argument, COMMA, noline=True)
            t(";")
        elif isinstance(node, A.ThrowStatement):
            t("throw")
            self.expr(node.argument, COMMA, noline=True)
            t(";")
        elif isinstance(node, A.TryStatement):
            t("try")
            self.block(node.block)
            if node.handler is not None:
                t("catch")
                t("(")
                self.name(node.handler.param)
                t(")")
                self.block(node.handler.body)
            if node.finalizer is not None:
                t("finally")
                self.block(node.finalizer)
        elif isinstance(node, A.SwitchStatement):
            t("switch")
            t("(")
            self.expr(node.discriminant)
            t(")")
            t("{")
            for c in node.cases:
                if c.test is None:
                    t("default")
                else:
                    t("case")
                    self.expr(c.test)
                t(":")
                for s in c.consequent:
                    self.stmt(s)
            t("}")
        elif isinstance(node, A.LabeledStatement):
            self.name(node.label)
            t(":")
            self.stmt(node.body)
        elif isinstance(node, A.FunctionDeclaration):
            t("function")
            self.name(node.id)
            self.params(node.params)
            self.block(node.body)
        elif isinstance(node, A.Program):
            for s in node.body:
                self.stmt(s)
        else:
            raise TypeError("cannot print statement %r" % type(node).__name__)


def tokens(node, wrap_at=None):
    """(token texts, gaps without line terminators, number of expression positions) for a Program/statement/expression."""
    p = Printer(wrap_at)
    if isinstance(node, (A.Program, A.ExpressionStatement, A.BlockStatement, A.EmptyStatement, A.VariableDeclaration,
                         A.IfStatement, A.WhileStatement, A.DoWhileStatement, A.ForStatement, A.ForInStatement,
                         A.ForOfStatement, A.BreakStatement, A.ContinueStatement, A.ReturnStatement, A.ThrowStatement,
                         A.TryStatement, A.SwitchStatement, A.LabeledStatement, A.FunctionDeclaration)):
        p.stmt(node)
    else:
        p.expr(node)
    return p.toks, p.noline, p.n_expr


def render(toks, gaps=None):
    """Join tokens; gaps maps gap index k (text before token k; len(toks) = after the last) to trivia, default ' '."""
    gaps = gaps or {}
    out = [gaps.get(0, "")]
    for k, tok in enumerate(toks):
        if k:
            out.append(gaps.get(k, " "))
        out.append(tok)
    out.append(gaps.get(len(toks), ""))
    return "".join(out)


def source(node, wrap_at=None):
    return render(tokens(node, wrap_at)[0])


_WORDISH = set("abcdefghijklmnopqrstuvwxyzABCDEFGHIJKLMNOPQRSTUVWXYZ0123456789_$")
_OPCH = set("+-*/<>=!&|^%?:.~")


def may_touch(left, right):
    """Can two adjacent tokens be written with nothing between them without changing the token sequence?"""
    a, b = left[-1], right[0]
    lw = a in _WORDISH or ord(a) > 127 or (left[0] == "/" and len(left) > 1)      # a regex literal ends in flags
    rw = b in _WORDISH or ord(b) > 127
    if lw and rw:
        return False
    if a in _OPCH and b in _OPCH:
        return False
    if left[0] in "0123456789." and left[-1] in "0123456789." and (b == "." or rw):
        return False
    if a in "\"'" or b in "\"'":
        return True
    return True


def strip(tree):
    """Structure of a node: to_dict() (which leaves source locations out) without Property.shorthand, a note about
    the spelling that the parser sets inconsistently and the compiler never reads."""
    def clean(d):
        if isinstance(d, dict):
            return {k: clean(v) for k, v in d.items() if k != "shorthand"}
        if isinstance(d, list):
            return [clean(v) for v in d]
        return d
    return clean(tree.to_dict())


def same_tree(a, b):
    """Structural equality that also distinguishes numeric literal values 1 / 1.0 only by value (both denote 1)."""
    return strip(a) == strip(b)
