"""Harness description shared by driver, worker, re-run and replay (no CrossHair import)."""
from dataclasses import dataclass, field
from typing import Callable, Optional


@dataclass
class Harness:
    id: str                         # stable: Cxx.<family>.<instance>
    fn: Callable                    # typed parameters = symbolic variables; returns True or a failure text
    bounds: list = field(default_factory=list)   # every bound / precondition, in words
    tier: str = "quick"             # "quick": both tiers; "thorough": thorough tier only
    per_path: float = 10.0          # CPU s per path
    budget: float = 60.0            # CPU s per harness
    budget_thorough: Optional[float] = None
    require: tuple = ()             # cover labels that must be reached on >= 1 path
    must_exhaust: bool = True       # False: bug-hunting only (reported as such)
    replay: Optional[Callable] = None   # args -> {"script":..., "expected":..., ...} public-API reproduction
    functions: tuple = ()           # real functions driven (entry points), for the evidence
    stubs: tuple = ()
    max_fail: int = 12
    group: str = ""                 # family name for the evidence summary
    expect_refuted: bool = False    # the `assert False` twin of the self-test

    def budget_for(self, tier):
        import os
        scale = float(os.environ.get("VF_BUDGET_SCALE", "1") or 1)     # smoke runs of a whole tier: VF_BUDGET_SCALE=0.02
        if tier == "thorough" and self.budget_thorough:
            return self.budget_thorough * scale
        return self.budget * scale


def load(prop):
    """All harnesses of property `prop` (module vf.harness.<prop>)."""
    import importlib
    mod = importlib.import_module("vf.harness." + prop)
    hs = mod.harnesses()
    seen = set()
    for h in hs:
        assert h.id.startswith(prop + "."), h.id
        assert h.id not in seen, "duplicate harness id " + h.id
        seen.add(h.id)
    return hs, mod
